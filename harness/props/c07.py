"""C07 — written LAMMPS data / dump / table and POSCAR files are well-formed and describe the system."""
from __future__ import annotations

import ast
import math
import random
import re
from fractions import Fraction

from .. import common as cm
from ..translate import TranslationError

PROP = 'C07'
GENERATED = ['AtomStyles', 'WriterSource']

# ----------------------------------------------------------------------------------------
# translator: atom_style -> column tables, dump standard columns, unit-style table
# ----------------------------------------------------------------------------------------

_MARK = re.compile(r'@([a-z]+)@([A-Za-z \-]+?)@')


class _Marks(dict):
    """what `style.unit(units)` returns inside the translator: every key the real function defines maps to
    a marker naming (units, key), so the *kind* of unit each column uses is recovered symbolically."""

    def __init__(self, units, keys):
        super().__init__({k: f'@{units}@{k}@' for k in keys})


_STDLIB_OK = {'functools', 'collections', 'copy', 'typing', 'itertools', 'operator'}


def _exec_without_imports(src, ns, what):
    try:
        tree = ast.parse(src)
    except SyntaxError as e:
        raise TranslationError(f'{what}: {e}')
    # imports of the package under test are replaced by the stubs in `ns`; plain standard-library imports
    # (functools, collections, copy, typing ...) are executed so that a decorator or helper taken from them is
    # evaluated as written instead of crashing the extraction
    keep = []
    for n in tree.body:
        if isinstance(n, ast.Import):
            if all(a.name.split('.')[0] in _STDLIB_OK for a in n.names):
                keep.append(n)
            continue
        if isinstance(n, ast.ImportFrom):
            if n.level == 0 and n.module and n.module.split('.')[0] in _STDLIB_OK:
                keep.append(n)
            continue
        keep.append(n)
    tree.body = keep
    try:
        exec(compile(tree, what, 'exec'), ns)
    except TranslationError:
        raise
    except Exception as e:
        raise TranslationError(f'{what}: module body raises {type(e).__name__}: {e}')
    return tree


def _style_names(tree, var):
    """string constants the function compares `var` with (`var == 'x'`, `var in ('x', …)`)."""
    out = []
    for n in ast.walk(tree):
        if isinstance(n, ast.Compare) and isinstance(n.left, ast.Name) and n.left.id == var and len(n.ops) == 1:
            c = n.comparators[0]
            if isinstance(n.ops[0], ast.Eq) and isinstance(c, ast.Constant) and isinstance(c.value, str):
                out.append(c.value)
            elif isinstance(n.ops[0], ast.In) and isinstance(c, (ast.Tuple, ast.List)):
                out += [e.value for e in c.elts if isinstance(e, ast.Constant) and isinstance(e.value, str)]
    seen = []
    for s in out:
        if s not in seen:
            seen.append(s)
    return seen


def _real_style():
    ns = {'OrderedDict': __import__('collections').OrderedDict}
    tree = _exec_without_imports(cm.source('atomman/lammps/style.py'), ns, 'style.py')
    if 'unit' not in ns:
        raise TranslationError('style.py: function unit not found')
    fn = [n for n in tree.body if isinstance(n, ast.FunctionDef) and n.name == 'unit']
    names = _style_names(fn[0], 'units')
    if not names:
        raise TranslationError('style.py: no unit styles found')
    return ns['unit'], names


class _StubStyle:
    def __init__(self, real_unit):
        self.real_unit = real_unit

    def unit(self, units='metal'):
        return _Marks(units, list(self.real_unit(units).keys()))


def _kind(u, want_units, where, notes):
    """marker string -> unit kind ('length', 'force*length', 'scaled', None)."""
    if u is None:
        return None
    if not isinstance(u, str):
        raise TranslationError(f'{where}: unit {u!r} is not a string')
    for m in _MARK.finditer(u):
        if m.group(1) != want_units:
            notes.add(m.group(1))
    k = _MARK.sub(lambda m: m.group(2), u)
    if '@' in k:
        raise TranslationError(f'{where}: cannot read unit {u!r}')
    return k


def _cols(prop_info, want_units, where, notes):
    cols = []
    if not isinstance(prop_info, list):
        raise TranslationError(f'{where}: prop_info is not a list')
    for p in prop_info:
        if not isinstance(p, dict) or 'prop_name' not in p:
            raise TranslationError(f'{where}: malformed prop_info entry {p!r}')
        extra = set(p) - {'prop_name', 'table_name', 'unit'}
        if extra:
            raise TranslationError(f'{where}: unsupported prop_info fields {sorted(extra)}')
        tn = p.get('table_name', p['prop_name'])
        tn = [tn] if isinstance(tn, str) else list(tn)
        cols.append((p['prop_name'], tn, _kind(p.get('unit'), want_units, where, notes)))
    return cols


def _lean_str(s):
    if not re.fullmatch(r'[A-Za-z0-9_ \-\*/\^\.\(\)\[\]]*', s):
        raise TranslationError(f'string {s!r} outside the supported alphabet')
    return '"' + s + '"'


def _lean_col(c):
    name, tn, kind = c
    k = 'none' if kind is None else f'(some {_lean_str(kind)})'
    return f'({_lean_str(name)}, [{", ".join(_lean_str(t) for t in tn)}], {k})'


def extract_tables():
    """evaluate the (pure) table functions of the working tree with a symbolic `style.unit`."""
    real_unit, unit_names = _real_style()
    stub = _StubStyle(real_unit)
    out = {'unit_names': unit_names, 'errors': {}}
    # unit styles
    out['unit_styles'] = {}
    for un in unit_names:
        d = real_unit(un)
        out['unit_styles'][un] = [(k, v) for k, v in d.items()]
    probe_units = 'si' if 'si' in unit_names else unit_names[0]
    forwarded = True
    for key, rel, fname in (('atom', 'atomman/dump/atom_data/atoms_prop_info.py', 'atoms_prop_info'),
                            ('vel', 'atomman/dump/atom_data/velocities_prop_info.py', 'velocities_prop_info')):
        ns = {'style': stub}
        tree = _exec_without_imports(cm.source(rel), ns, rel)
        if fname not in ns:
            raise TranslationError(f'{rel}: function {fname} not found')
        fn = [n for n in tree.body if isinstance(n, ast.FunctionDef) and n.name == fname][0]
        names = _style_names(fn, 'atom_style')
        if not names:
            raise TranslationError(f'{rel}: no atom styles found')
        table = []
        for st in names:
            notes = set()
            try:
                cols = _cols(ns[fname](st, probe_units), probe_units, f'{fname}({st!r})', notes)
            except TranslationError:
                raise
            except Exception as e:  # the real function raises for this style: recorded, columns empty
                out['errors'][f'{fname}:{st}'] = f'{type(e).__name__}: {e}'
                cols = []
            if notes:
                forwarded = False
            table.append((st, cols))
        out[key] = table
        # hybrid: does the composition forward `units`?
        subs = [s for s, c in table if c and s != 'atomic'][:3]
        for sub in subs:
            notes = set()
            try:
                _cols(ns[fname]('hybrid ' + sub, probe_units), probe_units, f'{fname}(hybrid {sub})', notes)
            except TranslationError:
                raise
            except Exception as e:
                out['errors'][f'{fname}:hybrid {sub}'] = f'{type(e).__name__}: {e}'
            if notes:
                forwarded = False
        # hybrid composition: what the real function returns for every ordered pair of sub-styles and a fixed set
        # of longer hybrids (the actual prop_info list, duplicates and all); `hybrid_samples_agree` re-proves on
        # every run that the hand-written `hybridCols` of the model produces exactly these lists
        good = [s for s, c in table if c]
        combos = [(a, b) for a in good for b in good if a != b and 'atomic' not in (a, b)]
        crng = random.Random(20260928)          # fixed: the generated file must not depend on VERIF_SEED
        nlong = 60 if key == 'atom' else 30
        for _ in range(nlong):
            combos.append(tuple(crng.sample(good, crng.choice([3, 3, 4, 5]))))
        combos += [(a,) for a in good] + [('atomic', good[0]), (good[-1], 'atomic', good[0])]
        if key == 'vel':
            special = [s for s, c in table if len(c) > 2] + [s for s, c in table if c and len(c) <= 2][:3]
            combos = [c for c in combos if len(c) != 2 or (c[0] in special and c[1] in special)]
        samples = []
        for subs in combos:
            notes = set()
            try:
                cols = _cols(ns[fname]('hybrid ' + ' '.join(subs), probe_units), probe_units,
                             f'{fname}(hybrid {" ".join(subs)})', notes)
            except TranslationError:
                raise
            except Exception as e:
                out['errors'][f'{fname}:hybrid {" ".join(subs)}'] = f'{type(e).__name__}: {e}'
                cols = []
            if notes:
                forwarded = False
            seen_props = [c[0] for c in cols]
            twice = sorted({x for x in seen_props if seen_props.count(x) > 1})
            if twice:
                raise TranslationError(f'{fname}("hybrid {" ".join(subs)}") lists {twice} more than once: the table '
                                       'writer would convert that column once per entry (theorem '
                                       'atom_columns_no_property_twice no longer describes the code)')
            samples.append((list(subs), cols))
        out[key + '_hybrids'] = samples
        # the base tables once more after all hybrid calls: a table function that remembers earlier calls
        # (cache, shared mutable list) shows up as a different answer
        for st, cols in table:
            if not cols:
                continue
            again = _cols(ns[fname](st, probe_units), probe_units, f'{fname}({st!r})', set())
            if again != cols:
                raise TranslationError(f'{fname}({st!r}) answers differently after hybrid calls: {again} vs {cols} '
                                       '(the function is not pure)')
    out['hybrid_forwards_units'] = forwarded
    # dump standard conversions
    rel = 'atomman/dump/atom_dump/process_prop_info.py'
    ns = {'style': stub, 'deepcopy': __import__('copy').deepcopy, 'indexstr': None, 'Optional': None}
    src = cm.source(rel).replace('Optional[list]', 'object')
    _exec_without_imports(src, ns, rel)
    if 'standard_conversions' not in ns:
        raise TranslationError(f'{rel}: standard_conversions not found')
    notes = set()
    out['dump'] = _cols(ns['standard_conversions'](probe_units), probe_units, 'standard_conversions', notes)
    if notes:
        out['hybrid_forwards_units'] = False
    return out


# ----------------------------------------------------------------------------------------
# translator, second part: the writer code itself (atom_data/dump.py, atom_dump/dump.py, poscar/dump.py,
# table/dump.py) -> Generated/WriterSource.lean.  The functions are walked with `ast`, statement by statement: every
# statement must have one of the shapes listed in the walkers below, anything else is a TranslationError.  The text a
# writer builds is evaluated symbolically (pieces: literal text, %i of an integer, float_format % number, a string
# argument, a list of words, a block of lines that another function returns) and cut at '\n' into lines and at ' ' into
# words -- exactly the (line, word) structure the model's documents have, so `renderLines` / `renderJoin` of the
# generated document IS the text the Python code concatenates.
# ----------------------------------------------------------------------------------------

def _u(n):
    return ast.unparse(n)


def _fail(what, n=None):
    raise TranslationError(what + (f': {_u(n)[:160]}' if n is not None else ''))


def _module(rel):
    try:
        return ast.parse(cm.source(rel))
    except SyntaxError as e:
        raise TranslationError(f'{rel}: {e}')


def _func(tree, name, rel):
    fns = [n for n in tree.body if isinstance(n, ast.FunctionDef) and n.name == name]
    if len(fns) != 1:
        _fail(f'{rel}: function {name} found {len(fns)} times')
    return fns[0]


def _stmts(fn):
    body = list(fn.body)
    if body and isinstance(body[0], ast.Expr) and isinstance(body[0].value, ast.Constant) and isinstance(body[0].value.value, str):
        body = body[1:]
    return body


def _signature(fn):
    """[(argument, default as source text | '<required>')] in order."""
    a = fn.args
    if a.vararg or a.kwarg or a.kwonlyargs or a.posonlyargs:
        _fail(f'{fn.name}: unsupported kind of parameter')
    names = [x.arg for x in a.args]
    defaults = [None] * (len(names) - len(a.defaults)) + list(a.defaults)
    return [(n, '<required>' if d is None else _u(d)) for n, d in zip(names, defaults)]


def _is(n, src):
    """does the node read exactly like `src` (normalised through ast.unparse)?"""
    return _u(n) == _u(ast.parse(src, mode='eval').body)


def _is_stmt(n, src):
    return _u(n) == _u(ast.parse(src).body[0])


_V3C = ('x', 'y', 'z')


class _Text:
    """symbolic evaluation of the string expressions of one writer."""

    def __init__(self, where, strvars=None, numvars=None, intvars=None, v3vars=None, blocks=None, splices=None, conds=None):
        self.where = where
        self.templates = {}                       # name -> pieces with ('FMT',) holes
        self.strvars = dict(strvars or {})        # python name -> ('tok' | 'words', lean expr)
        self.numvars = dict(numvars or {})        # python name -> lean Rat expr
        self.intvars = dict(intvars or {})        # python source text -> (kind 'int'|'nat', lean expr)
        self.v3vars = dict(v3vars or {})          # python source text -> lean V3 expr
        self.blocks = dict(blocks or {})          # python call name -> handler(call node) -> lean Doc expr
        self.splices = dict(splices or {})        # python source text -> (lean List Tok expr)
        self.conds = dict(conds or {})            # python source text of a condition -> lean Prop/Bool expr
        self.special = {}                         # source text of a statement -> the pieces it adds
        self.started = False

    # -- numbers -------------------------------------------------------------------------
    def num(self, n):
        if isinstance(n, ast.Name) and n.id in self.numvars:
            return n.id if self.numvars[n.id] is True else self.numvars[n.id]
        if isinstance(n, ast.Constant) and isinstance(n.value, (int, float)) and not isinstance(n.value, bool):
            fr = Fraction(n.value)
            if fr.denominator != 1:
                _fail(f'{self.where}: non-integer constant', n)
            return str(fr.numerator)
        if isinstance(n, ast.BinOp) and isinstance(n.op, (ast.Add, ast.Sub, ast.Mult, ast.Div)):
            op = {ast.Add: '+', ast.Sub: '-', ast.Mult: '*', ast.Div: '/'}[type(n.op)]
            return f'({self.num(n.left)} {op} {self.num(n.right)})'
        if isinstance(n, ast.Call) and isinstance(n.func, ast.Name) and n.func.id in ('min', 'max') and len(n.args) == 1 \
                and isinstance(n.args[0], (ast.Tuple, ast.List)) and n.args[0].elts and not n.keywords:
            el = [self.num(e) for e in n.args[0].elts]
            return f'({"listMin" if n.func.id == "min" else "listMax"} 0 [{", ".join(el)}])'
        _fail(f'{self.where}: unsupported numeric expression', n)

    def cond(self, n):
        s = _u(n)
        if s in self.conds:
            return self.conds[s]
        if isinstance(n, ast.BoolOp):
            op = ' ∧ ' if isinstance(n.op, ast.And) else ' ∨ '
            return '(' + op.join(self.cond(v) for v in n.values) + ')'
        if isinstance(n, ast.UnaryOp) and isinstance(n.op, ast.Not):
            return f'(¬ {self.cond(n.operand)})'
        if isinstance(n, ast.Compare) and len(n.ops) == 1:
            ops = {ast.Eq: '=', ast.NotEq: '≠', ast.Lt: '<', ast.LtE: '≤', ast.Gt: '>', ast.GtE: '≥'}
            if type(n.ops[0]) in ops:
                return f'({self.num(n.left)} {ops[type(n.ops[0])]} {self.num(n.comparators[0])})'
        _fail(f'{self.where}: unsupported condition', n)

    # -- format templates ----------------------------------------------------------------
    def template(self, n):
        if isinstance(n, ast.Name) and n.id == 'float_format':
            return [('FMT',)]
        if isinstance(n, ast.Name) and n.id in self.templates:
            return list(self.templates[n.id])
        if isinstance(n, ast.Constant) and isinstance(n.value, str):
            out, s = [], n.value
            while '%i' in s:
                k = s.index('%i')
                if s[:k]:
                    out.append(('lit', s[:k]))
                out.append(('INT',))
                s = s[k + 2:]
            if '%' in s:
                _fail(f'{self.where}: unsupported conversion in format', n)
            if s:
                out.append(('lit', s))
            return out
        if isinstance(n, ast.BinOp) and isinstance(n.op, ast.Add):
            return self.template(n.left) + self.template(n.right)
        _fail(f'{self.where}: unsupported format template', n)

    def args(self, n):
        """the values handed to `%`: [('num', lean) | ('int', kind, lean)]"""
        if isinstance(n, ast.Tuple):
            return [a for e in n.elts for a in self.args(e)]
        s = _u(n)
        if isinstance(n, ast.Call) and isinstance(n.func, ast.Name) and n.func.id == 'tuple' and len(n.args) == 1 \
                and _u(n.args[0]) in self.v3vars:
            v = self.v3vars[_u(n.args[0])]
            return [('num', f'{v}.{c}') for c in _V3C]
        if s in self.intvars:
            return [('int',) + tuple(self.intvars[s])]
        return [('num', self.num(n))]

    # -- text ----------------------------------------------------------------------------
    def text(self, n):
        if isinstance(n, ast.Constant) and isinstance(n.value, str):
            return [('lit', n.value)] if n.value else []
        if isinstance(n, ast.JoinedStr):
            out = []
            for v in n.values:
                if isinstance(v, ast.Constant):
                    out.append(('lit', v.value))
                elif isinstance(v, ast.FormattedValue) and v.conversion == -1 and v.format_spec is None:
                    out += self.strvalue(v.value)
                else:
                    _fail(f'{self.where}: unsupported f-string part', v)
            return out
        if isinstance(n, ast.BinOp) and isinstance(n.op, ast.Add):
            return self.text(n.left) + self.text(n.right)
        if isinstance(n, ast.BinOp) and isinstance(n.op, ast.Mod):
            t, a = self.template(n.left), self.args(n.right)
            out = []
            for p in t:
                if p[0] == 'lit':
                    out.append(p)
                    continue
                if not a:
                    _fail(f'{self.where}: too few values for the format', n)
                v = a.pop(0)
                if p[0] == 'FMT' and v[0] == 'num':
                    out.append(('num', v[1]))
                elif p[0] == 'INT' and v[0] == 'int':
                    out.append(('int', v[1], v[2]))
                else:
                    _fail(f'{self.where}: a {p[0]} conversion is given a {v[0]} value', n)
            if a:
                _fail(f'{self.where}: too many values for the format', n)
            return out
        if isinstance(n, ast.Call) and isinstance(n.func, ast.Attribute) and n.func.attr == 'join' and len(n.args) == 1 \
                and isinstance(n.func.value, ast.Constant) and not n.keywords:
            sep = n.func.value.value
            if sep == ' ' and _u(n.args[0]) in self.splices:
                return [('splice', self.splices[_u(n.args[0])])]
            if sep == '\n' and isinstance(n.args[0], ast.List):
                out = []
                for k, e in enumerate(n.args[0].elts):
                    if k:
                        out.append(('lit', '\n'))
                    out += self.text(e)
                return out
        if isinstance(n, ast.Call) and isinstance(n.func, ast.Name) and n.func.id in self.blocks:
            return [('block', self.blocks[n.func.id](n))]
        if isinstance(n, ast.Name):
            return self.strvalue(n)
        _fail(f'{self.where}: unsupported text expression', n)

    def strvalue(self, n):
        s = _u(n)
        if s in self.strvars:
            kind, lean = self.strvars[s]
            if kind == 'pieces':
                return list(lean)
            return [(kind if kind in ('tok', 'rawtok') else 'splice', lean)]
        _fail(f'{self.where}: string value not known to the model', n)


def _lean_chars(s):
    if not re.fullmatch(r'[A-Za-z0-9_:#\-\.]+', s):
        raise TranslationError(f'literal word {s!r} outside the supported alphabet')
    return f'cs!"{s}"'


def _tokens(where, atoms):
    """one line (pieces without line breaks) -> lean expression of type Line; words are what str.split(' ') gives."""
    segs = []            # ('one', lean Tok) | ('many', lean List Tok)
    cur = ''             # '' empty word so far | str literal word | ('val', lean) | None = just after a splice

    def push():
        nonlocal cur
        if cur is None:
            pass
        elif cur == '':
            segs.append(('one', '[]'))
        elif isinstance(cur, str):
            segs.append(('one', _lean_chars(cur)))
        else:
            segs.append(('one', cur[1]))
        cur = ''

    if not atoms:
        return '[]'
    for p in atoms:
        if p[0] == 'lit':
            for ch in p[1]:
                if ch == ' ':
                    push()
                elif cur is None or isinstance(cur, tuple):
                    _fail(f'{where}: text {p[1]!r} directly after a value (no blank between them)')
                else:
                    cur += ch
        elif p[0] in ('num', 'int', 'tok', 'rawtok'):
            if cur != '':
                _fail(f'{where}: a value directly after other text of the same word')
            lean = {'num': lambda: f'fmtNum f {p[1]}', 'tok': lambda: f'strTok {p[1]}', 'rawtok': lambda: p[1],
                    'int': lambda: f'{"intTok" if p[1] == "int" else "natTok"} {p[2]}'}[p[0]]()
            cur = ('val', lean)
        elif p[0] == 'splice':
            if cur != '':
                _fail(f'{where}: a list of words directly after other text of the same word')
            segs.append(('many', p[1]))
            cur = None
        elif p[0] == 'splice+':            # every word followed by a blank: 'w1 w2 ... wn '
            if cur != '':
                _fail(f'{where}: a list of words directly after other text of the same word')
            segs.append(('many', p[1]))
            cur = ''
        else:
            _fail(f'{where}: a block of lines inside a line')
    push()
    out, run = [], []
    for kind, lean in segs:
        if kind == 'one':
            run.append(lean)
        else:
            if run:
                out.append('[' + ', '.join(run) + ']')
                run = []
            out.append(lean)
    if run:
        out.append('[' + ', '.join(run) + ']')
    return ' ++ '.join(out)


def _doc(where, pieces, joined, after_line=False):
    """pieces of a whole text -> lean expression of type Doc.  `joined` False: every line ends with a line break
    (renderLines); True: line breaks stand between lines (renderJoin), a block adds lines after the current one."""
    parts = []
    line = None if after_line else []     # words of the current line; None = no line is open (joined mode, after a block
    #                                       or at the start of a branch that continues a text)

    def close():
        nonlocal line
        parts.append(('line', _tokens(where, line)))
        line = []

    for p in pieces:
        if p[0] == 'lit':
            for k, ch in enumerate(p[1].split('\n')):
                if k:
                    if line is not None:
                        close()
                    line = []
                if ch:
                    if line is None:
                        _fail(f'{where}: text directly after a block of lines')
                    line.append(('lit', ch))
        elif p[0] == 'block':
            if joined:
                if line is not None:
                    close()
                line = None
            elif line:
                _fail(f'{where}: a block of lines starts in the middle of a line')
            parts.append(('block', p[1]))
        else:
            if line is None:
                _fail(f'{where}: text directly after a block of lines')
            line.append(p)
    if joined:
        if line is not None:
            close()
    elif line:
        _fail(f'{where}: the text does not end with a line break')
    out, run = [], []
    for kind, lean in parts:
        if kind == 'line':
            run.append(lean)
        else:
            if run:
                out.append('[' + ', '.join(run) + ']')
                run = []
            out.append(lean)
    if run:
        out.append('[' + ', '.join(run) + ']')
    return ' ++\n    '.join(out) if out else '[]'


def _flat(lean):
    return lean.replace(' ++\n    ', ' ++ ')


class _Subst(ast.NodeTransformer):
    def __init__(self, name, value):
        self.name, self.value = name, value

    def visit_Name(self, n):
        return ast.copy_location(ast.Constant(self.value), n) if n.id == self.name else n


def _walk(T, stmts, var, other, joined=False):
    """the statements that build the text held in `var` -> pieces.  `other(stmt)` must recognise (return True for) every
    statement that is not one of: var = text, var += text, name = format template, if / for around such statements,
    return."""
    out = []
    for st in stmts:
        if _u(st) in T.special:
            out += T.special[_u(st)]
            continue
        if isinstance(st, ast.Assign) and len(st.targets) == 1 and isinstance(st.targets[0], ast.Name):
            name = st.targets[0].id
            if name == var:
                if T.started:
                    _fail(f'{T.where}: {var} is assigned a second time', st)
                T.started = True
                out += T.text(st.value)
                continue
            if other(st):
                continue
            try:
                T.templates[name] = T.template(st.value)
                continue
            except TranslationError:
                _fail(f'{T.where}: statement outside the translated subset', st)
        if isinstance(st, ast.AugAssign) and isinstance(st.op, ast.Add) and isinstance(st.target, ast.Name) and st.target.id == var:
            out += T.text(st.value)
            continue
        if isinstance(st, ast.If) and not other(st):
            c = T.cond(st.test)
            a = _walk(T, st.body, var, other, joined)
            b = _walk(T, st.orelse, var, other, joined)
            if isinstance(c, tuple):               # ('match', option expr, bound name): `x is not None`-like tests
                out.append(('block', f'(match {c[1]} with | some {c[2]} => {_flat(_doc(T.where, a, joined, joined)) if a else "[]"} '
                                     f'| none => {_flat(_doc(T.where, b, joined, joined)) if b else "[]"})'))
                continue
            flat = all(p[0] != 'block' and (p[0] != 'lit' or '\n' not in p[1]) for p in a + b)
            if flat:
                lead = all(br and br[0][0] == 'lit' and br[0][1].startswith(' ') for br in (a, b))
                if lead:
                    a = [('lit', a[0][1][1:])] + a[1:]
                    b = [('lit', b[0][1][1:])] + b[1:]
                    out.append(('lit', ' '))
                ta = _tokens(T.where, a) if a else '[]'
                tb = _tokens(T.where, b) if b else '[]'
                out.append(('splice', f'(if {c} then {ta} else {tb})'))
            else:
                out.append(('block', f'(if {c} then {_flat(_doc(T.where, a, joined, joined)) if a else "[]"} else '
                                     f'{_flat(_doc(T.where, b, joined, joined)) if b else "[]"})'))
            continue
        if isinstance(st, ast.If):
            continue
        if isinstance(st, ast.For) and isinstance(st.target, ast.Name) and not st.orelse and not other(st):
            if not (_is(st.iter, 'range(3)')):
                _fail(f'{T.where}: unsupported loop', st)
            for k in range(3):
                body = [ast.fix_missing_locations(_Subst(st.target.id, k).visit(ast.parse(_u(s)).body[0])) for s in st.body]
                out += _walk(T, body, var, other, joined)
            continue
        if isinstance(st, ast.For):
            continue
        if isinstance(st, ast.Return):
            if not (isinstance(st.value, ast.Name) and st.value.id == var):
                _fail(f'{T.where}: unexpected return', st)
            continue
        if other(st):
            continue
        _fail(f'{T.where}: statement outside the translated subset', st)
    return out


_HILO = ('xlo', 'xhi', 'ylo', 'yhi', 'zlo', 'zhi', 'xy', 'xz', 'yz')
_PBC = {'system.pbc[0]': 'pbc.x', 'system.pbc[1]': 'pbc.y', 'system.pbc[2]': 'pbc.z'}


def _box_value(st, T, lets, unit_src):
    """name = uc.get_in_units(system.box.<attr>, <length unit>)  ->  let name := divBy lf b.<attr>"""
    if isinstance(st, ast.Assign) and isinstance(st.value, ast.Call) and _is(st.value.func, 'uc.get_in_units') \
            and len(st.value.args) == 2 and not st.value.keywords and _is(st.value.args[1], unit_src) \
            and isinstance(st.value.args[0], ast.Attribute) and _is(st.value.args[0].value, 'system.box'):
        attr = st.value.args[0].attr
        if attr not in _HILO:
            _fail('box value that is not one of xlo ... yz', st)
        name = st.targets[0].id
        T.numvars[name] = True
        lets.append(f'  let {name} := divBy lf b.{attr}')
        return True
    return False


def _route(stmts, var, where):
    """the if / elif / else chain that hands the text over: evaluated for the three kinds of target.
    -> ({'none' | 'path' | 'stream': 'return' | 'write' | 'nothing'}, file mode)"""
    chains = [s for s in stmts if isinstance(s, ast.If) and _is(s.test, "hasattr(f, 'write')")]
    if len(chains) != 1:
        _fail(f'{where}: the hand-over of the text (hasattr(f, "write") ...) is not there exactly once')
    mode = []

    def action(body):
        if len(body) == 1 and _is_stmt(body[0], f'f.write({var})'):
            return 'write'
        if len(body) == 1 and (_is_stmt(body[0], f'returns.append({var})') or _is_stmt(body[0], f'return {var}')):
            return 'return'
        if len(body) == 1 and isinstance(body[0], ast.With) and len(body[0].items) == 1 and len(body[0].body) == 1 \
                and _is_stmt(body[0].body[0], f'fp.write({var})') and isinstance(body[0].items[0].context_expr, ast.Call) \
                and _is(body[0].items[0].context_expr.func, 'open') and _is(body[0].items[0].optional_vars, 'fp') \
                and body[0].items[0].context_expr.args and _is(body[0].items[0].context_expr.args[0], 'f') \
                and len(body[0].items[0].context_expr.args) == 2 and isinstance(body[0].items[0].context_expr.args[1], ast.Constant):
            mode.append(body[0].items[0].context_expr.args[1].value)
            return 'write'
        _fail(f'{where}: unsupported hand-over of the text', body[0] if body else None)

    def run(node, target):
        truth = {"hasattr(f, 'write')": target == 'stream', 'f is not None': target != 'none', 'f is None': target == 'none'}
        while True:
            t = _u(node.test)
            if t not in truth:
                _fail(f'{where}: unsupported test in the hand-over of the text', node.test)
            if truth[t]:
                return action(node.body)
            if len(node.orelse) == 1 and isinstance(node.orelse[0], ast.If):
                node = node.orelse[0]
                continue
            return action(node.orelse) if node.orelse else 'nothing'

    res = {t: run(chains[0], t) for t in ('none', 'path', 'stream')}
    if len(mode) != 1 or not isinstance(mode[0], str):
        _fail(f'{where}: the file is not opened exactly once')
    return res, mode[0]


def _returns_tail(stmts, flag, extra, where):
    """returns = [] ... if <flag> is True: returns.append(<extra>) ... one value bare, several as a tuple."""
    texts = [_u(s) for s in stmts]
    if texts.count('returns = []') != 1:
        _fail(f'{where}: returns = [] not found exactly once')
    end = _u(ast.parse('if len(returns) == 1:\n    return returns[0]\nelif len(returns) > 1:\n    return tuple(returns)').body[0])
    if end not in texts[-2:]:
        _fail(f'{where}: the return of one value / a tuple of values has changed')
    flags = [s for s in stmts if isinstance(s, ast.If) and _u(s.test).startswith(flag)]
    if len(flags) != 1 or not _is_stmt(flags[0].body[-1], f'returns.append({extra})') or flags[0].orelse:
        _fail(f'{where}: the optional second return value has changed')
    return _u(flags[0].test)


def _lean_route(name, res, extra_param):
    rows = []
    for t in ('none', 'path', 'stream'):
        rows.append(f'  | .{t if t != "path" else "path _"} => ⟨{"true" if res[t] == "return" else "false"}, {extra_param}, '
                    f'{"true" if res[t] == "write" else "false"}⟩')
    return (f'def {name} (t : Target) (wantExtra : Bool) : Delivered :=\n  match t with\n' + '\n'.join(rows))


def _pin(fn_or_stmts):
    import hashlib
    stmts = _stmts(fn_or_stmts) if isinstance(fn_or_stmts, ast.FunctionDef) else fn_or_stmts
    return hashlib.sha1('\n'.join(_u(s) for s in stmts).encode()).hexdigest()[:16]


def _lean_sig(name, sig):
    return (f'def {name} : List (String × String) :=\n  [' +
            ', '.join(f'({_lean_q(a)}, {_lean_q(d)})' for a, d in sig) + ']')


def _lean_q(s):
    if '"' in s:
        raise TranslationError(f'string {s!r} cannot be written as a Lean literal')
    return '"' + s.replace('\\', '\\\\') + '"'


def translate_writers():
    L = ['/- GENERATED by harness/props/c07.py (translate_writers) from atomman/dump/atom_data/dump.py,',
         '   atomman/dump/atom_dump/dump.py, atomman/dump/poscar/dump.py, atomman/dump/table/dump.py and',
         '   atomman/dump/table/df_to_table.py with `ast` — do not edit.  Every definition is proved equal to the hand model',
         '   in lean/Proofs/C07_Source.lean (`gen_…_eq_model`). -/',
         'import Atomman.C07', 'set_option linter.unusedVariables false', 'namespace Atomman.Gen.WriterSource',
         'open Atomman Atomman.C07', '']

    # ---------------------------------------------------------------- atom_data/dump.py
    rel = 'atomman/dump/atom_data/dump.py'
    tree = _module(rel)
    # box_content
    fn = _func(tree, 'box_content', rel)
    if _signature(fn) != [('system', '<required>'), ('units', '<required>'), ('float_format', '<required>')]:
        _fail('box_content: signature changed')
    T, lets = _Text('atom_data.box_content'), []

    def other(st):
        return _is_stmt(st, 'units_dict = style.unit(units)') or _is_stmt(st, "length_unit = units_dict['length']") \
            or _box_value(st, T, lets, 'length_unit')
    doc = _doc(T.where, _walk(T, _stmts(fn), 'content', other), False)
    L += ['/-- `box_content`: the box lines of a data file (`lf` = the length unit of the unit style, `b` = the box of the',
          '    wrapped system). -/',
          'def genDataBoxLines (f : Fmt) (lf : Option Rat) (b : HiLo) : Doc :=', *lets, '  ' + doc, '']
    # info_content
    fn = _func(tree, 'info_content', rel)
    L += [_lean_sig('infoSignature', _signature(fn)), '']
    T = _Text('atom_data.info_content', strvars={'units': ('tok', 'units'), 'atom_style': ('words', '(styleWords style).map strTok'),
                                                 'f': ('tok', 'n')},
              conds={'isinstance(f, str)': ('match', 'fname', 'n')})
    seen = {}

    def other(st):
        if isinstance(st, ast.Assign) and _is(st.targets[0], 'bflags') and isinstance(st.value, ast.Call) \
                and _is(st.value.func, 'np.array') and len(st.value.args) == 1 and isinstance(st.value.args[0], ast.List) \
                and len(st.value.args[0].elts) == 3 and all(isinstance(e, ast.Constant) and isinstance(e.value, str) for e in st.value.args[0].elts):
            seen['off'] = [e.value for e in st.value.args[0].elts]
            return True
        if isinstance(st, ast.Assign) and _is(st.targets[0], 'bflags[system.pbc]') and isinstance(st.value, ast.Constant) \
                and isinstance(st.value.value, str) and 'off' in seen:
            for k, c in enumerate(_V3C):
                T.strvars[f'bflags[{k}]'] = ('rawtok', f'(if pbc.{c} then {_lean_chars(st.value.value)} else {_lean_chars(seen["off"][k])})')
            return True
        return False
    doc = _doc(T.where, _walk(T, _stmts(fn), 'info', other), False)
    L += ['/-- `info_content`: the command snippet. -/',
          'def genInfoDoc (pbc : V3 Bool) (style units : String) (fname : Option String) : Doc :=', '  ' + doc, '']
    # atoms_content
    fn = _func(tree, 'atoms_content', rel)
    if [a for a, _d in _signature(fn)] != ['system', 'imageflags', 'atom_style', 'units', 'float_format']:
        _fail('atoms_content: signature changed')
    T = _Text('atom_data.atoms_content', strvars={'atom_style': ('words', '(styleWords style).map strTok')})
    call = 'dump_table(system, prop_info=prop_info, float_format=float_format, extra=extra)'

    def block(n):
        if not _is(n, call):
            _fail('atoms_content: the table call has changed', n)
        return 'atomRows'
    T.blocks['dump_table'] = block
    flags = {}

    def other(st):
        if _is_stmt(st, 'prop_info = atoms_prop_info(atom_style, units)'):
            return True
        if isinstance(st, ast.If) and _u(st.test).startswith('np.allclose(imageflags'):
            flags['when'] = _u(st.test)
            if not (len(st.body) == 1 and _is_stmt(st.body[0], 'extra = None') and st.orelse
                    and _is_stmt(st.orelse[0], 'extra = OrderedDict()')):
                _fail('atoms_content: image flag columns', st)
            cols = []
            for s in st.orelse[1:]:
                if not (isinstance(s, ast.Assign) and isinstance(s.targets[0], ast.Subscript) and _is(s.targets[0].value, 'extra')
                        and isinstance(s.targets[0].slice, ast.Constant) and isinstance(s.value, ast.Subscript)
                        and _is(s.value.value, 'imageflags') and isinstance(s.value.slice, ast.Tuple)
                        and _u(s.value.slice.elts[0]) == ':' and isinstance(s.value.slice.elts[1], ast.Constant)):
                    _fail('atoms_content: image flag column', s)
                cols.append((s.targets[0].slice.value, s.value.slice.elts[1].value))
            flags['cols'] = cols
            return True
        return False
    doc = _doc(T.where, _walk(T, _stmts(fn), 'content', other), False)
    if 'cols' not in flags:
        _fail('atoms_content: image flag columns not found')
    L += ['/-- `atoms_content`: the `Atoms # style` section around the table of atom lines. -/',
          'def genAtomsSection (style : String) (atomRows : Doc) : Doc :=', '  ' + doc, '',
          '/-- the extra columns of the atom table: (name, column of the image-flag array), in the order written. -/',
          'def genFlagColumns : List (String × Nat) := [' + ', '.join(f'({_lean_q(a)}, {int(b)})' for a, b in flags['cols']) + ']',
          '/-- the test under which no image-flag columns are written. -/',
          f'def genFlagsOmittedWhen : String := {_lean_q(flags["when"])}', '']
    # dump
    fn = _func(tree, 'dump', rel)
    L += [_lean_sig('dataSignature', _signature(fn)), '']
    stmts = _stmts(fn)
    cut = [k for k, s in enumerate(stmts) if _is_stmt(s, 'returns = []')]
    if len(cut) != 1:
        _fail('atom_data.dump: returns = [] not found exactly once')
    head, tail = stmts[:cut[0]], stmts[cut[0]:]
    T = _Text('atom_data.dump', intvars={'system.natoms': ('nat', 'natoms'), 'natypes': ('nat', 'natypes')},
              conds={"'velocity' in system.atoms_prop()": ('match', 'vel', 'velRows')})
    T.blocks['box_content'] = lambda n: 'box' if _is(n, 'box_content(system, units, float_format)') else _fail('dump: box_content call', n)
    T.blocks['atoms_content'] = lambda n: 'atomsSection' if _is(n, 'atoms_content(system, imageflags, atom_style, units, float_format)') else _fail('dump: atoms_content call', n)
    T.blocks['dump_table'] = lambda n: 'velRows' if _is(n, 'dump_table(system, prop_info=prop_info, float_format=float_format)') else _fail('dump: velocity table call', n)
    resolve = {}

    def other(st):
        if _is_stmt(st, 'if safecopy:\n    system = deepcopy(system)') or _is_stmt(st, 'imageflags = system.wrap(return_imageflags=True)') \
                or _is_stmt(st, 'prop_info = velocities_prop_info(atom_style, units)'):
            return True
        if isinstance(st, ast.If) and _is(st.test, 'potential is not None'):
            for key, body in (('pot', st.body), ('nopot', st.orelse)):
                got = {}
                for s in body:
                    if not (isinstance(s, ast.If) and isinstance(s.test, ast.Compare) and _u(s.test).endswith(' is None')
                            and len(s.body) == 1 and not s.orelse and isinstance(s.body[0], ast.Assign)
                            and _u(s.body[0].targets[0]) == _u(s.test.left)):
                        _fail('atom_data.dump: argument defaults', s)
                    got[_u(s.test.left)] = s.body[0].value
                if sorted(got) != ['atom_style', 'natypes', 'units']:
                    _fail('atom_data.dump: argument defaults', st)
                resolve[key] = got
            return True
        return False
    doc = _doc(T.where, _walk(T, head, 'content', other), False)
    if 'pot' not in resolve:
        _fail('atom_data.dump: argument defaults not found')

    def rv(n, key):
        table = {'potential.units': 'p.units', 'potential.atom_style': 'p.atomStyle',
                 'len(potential.normalize_symbols(system.symbols))': 'p.natypes', 'system.natypes': 'sysNatypes'}
        if isinstance(n, ast.Constant) and isinstance(n.value, str):
            return _lean_str(n.value)
        if _u(n) in table and (key == 'pot' or not _u(n).startswith(('potential', 'len(potential'))):
            return table[_u(n)]
        _fail('atom_data.dump: default value', n)
    arms = []
    for key, pat in (('pot', 'some p'), ('nopot', 'none')):
        r = resolve[key]
        arms.append(f'  | {pat} => (unitsArg.getD {rv(r["units"], key)}, styleArg.getD {rv(r["atom_style"], key)}, '
                    f'natypesArg.getD {rv(r["natypes"], key)})')
    L += ['/-- head of `dump`: an argument that is None is taken from the potential when there is one, else the default. -/',
          'def genResolveArgs (unitsArg styleArg : Option String) (natypesArg : Option Nat) (pot : Option PotArgs)',
          '    (sysNatypes : Nat) : String × String × Nat :=', '  match pot with', *arms, '',
          '/-- the text `dump` concatenates: counts, box lines, Atoms section, Velocities section when the system has velocities. -/',
          'def genDataDoc (natoms natypes : Nat) (box atomsSection : Doc) (vel : Option Doc) : Doc :=', '  ' + doc, '']
    res, mode = _route(tail, 'content', 'atom_data.dump')
    flag = _returns_tail(tail, 'return_info', 'read_info', 'atom_data.dump')
    snippet = ("if return_info is True:\n    if potential is not None:\n        read_info = potential.pair_data_info(f, system.pbc, "
               "symbols=system.symbols, masses=system.masses, atom_style=atom_style, units=units, prompt=prompt, comments=comments)\n"
               "    else:\n        read_info = info_content(system, f, atom_style=atom_style, units=units)\n    returns.append(read_info)")
    if not any(_is_stmt(s, snippet) for s in tail):
        _fail('atom_data.dump: the call that produces the command snippet (resolved atom_style / units handed on) has changed')
    L += [_lean_route('genDataDeliver', res, 'wantExtra'), f'def genDataFileMode : String := {_lean_q(mode)}',
          f'def genDataExtraWhen : String := {_lean_q(flag)}', '']

    # ---------------------------------------------------------------- atom_dump/dump.py
    rel = 'atomman/dump/atom_dump/dump.py'
    tree = _module(rel)
    fn = _func(tree, 'dump', rel)
    L += [_lean_sig('dumpSignature', _signature(fn)), '']
    stmts = _stmts(fn)
    start = [k for k, s in enumerate(stmts) if _is_stmt(s, "content = 'ITEM: TIMESTEP\\n'")]
    cut = [k for k, s in enumerate(stmts) if _is_stmt(s, 'returns = []')]
    if len(start) != 1 or len(cut) != 1:
        _fail('atom_dump.dump: start of the text / returns = [] not found exactly once')
    pre, body, tail = stmts[:start[0]], stmts[start[0]:cut[0]], stmts[cut[0]:]
    if not any(_is_stmt(s, 'lammps_unit = style.unit(lammps_units)') for s in pre):
        _fail('atom_dump.dump: lammps_unit = style.unit(lammps_units) not found')
    # defaults in front of the text: prop_name (atom_id first) and shape
    dflt = [s for s in pre if isinstance(s, ast.If) and _is(s.test, 'prop_info is None')]
    if len(dflt) != 1 or len(dflt[0].body) != 2 or dflt[0].orelse:
        _fail('atom_dump.dump: the defaults of prop_name / shape have changed')
    dn, dsh = dflt[0].body
    want_dn = "if prop_name is None:\n    atoms_props = system.atoms_prop()\n    try:\n        atoms_props.pop(atoms_props.index({0}))\n" \
              "    except:\n        pass\n    prop_name = [{1}] + atoms_props"
    ok = isinstance(dn, ast.If) and len(dn.body) == 3 and isinstance(dn.body[2], ast.Assign) \
        and isinstance(dn.body[2].value, ast.BinOp) and isinstance(dn.body[2].value.left, ast.List) \
        and len(dn.body[2].value.left.elts) == 1 and isinstance(dn.body[2].value.left.elts[0], ast.Constant)
    if ok:
        first = dn.body[2].value.left.elts[0].value
        tr = dn.body[1]
        ok = isinstance(tr, ast.Try) and len(tr.body) == 1 and isinstance(tr.body[0], ast.Expr) \
            and isinstance(tr.body[0].value, ast.Call) and tr.body[0].value.args \
            and isinstance(tr.body[0].value.args[0], ast.Call) and tr.body[0].value.args[0].args \
            and isinstance(tr.body[0].value.args[0].args[0], ast.Constant)
    if ok:
        dropped = tr.body[0].value.args[0].args[0].value
        ok = _u(dn) == _u(ast.parse(want_dn.format(repr(dropped), repr(first))).body[0])
    if not ok:
        _fail('atom_dump.dump: the default prop_name has changed', dn)
    ok = isinstance(dsh, ast.If) and _is(dsh.test, 'shape is None and table_name is None') and len(dsh.body) == 2 \
        and _is_stmt(dsh.body[0], 'shape = []') and isinstance(dsh.body[1], ast.For) and _is(dsh.body[1].target, 'name') \
        and _is(dsh.body[1].iter, 'prop_name') and len(dsh.body[1].body) == 1 and isinstance(dsh.body[1].body[0], ast.If)
    if ok:
        i1 = dsh.body[1].body[0]
        ok = isinstance(i1.test, ast.Compare) and _is(i1.test.left, 'name') and isinstance(i1.test.ops[0], ast.Eq) \
            and isinstance(i1.test.comparators[0], ast.Constant) and _is_stmt(i1.body[0], 'shape.append(())') \
            and len(i1.orelse) == 1 and isinstance(i1.orelse[0], ast.If)
    if ok:
        i2 = i1.orelse[0]
        ok = isinstance(i2.test, ast.Compare) and _is(i2.test.left, 'name') and isinstance(i2.test.ops[0], ast.In) \
            and isinstance(i2.test.comparators[0], (ast.List, ast.Tuple)) \
            and all(isinstance(e, ast.Constant) for e in i2.test.comparators[0].elts) \
            and _is_stmt(i2.body[0], 'shape.append((3,))') and len(i2.orelse) == 1 \
            and _is_stmt(i2.orelse[0], 'shape.append(system.atoms.view[name].shape[1:])')
    if not ok:
        _fail('atom_dump.dump: the default shape has changed', dsh)
    L += ['/-- the defaults of `atom_dump.dump`: prop_name (`atoms_props` = system.atoms_prop()) and the shape of one name. -/',
          f'def genDefaultDumpNames (atomsProps : List String) : List String := [{_lean_q(first)}] ++ atomsProps.erase {_lean_q(dropped)}',
          'def genDefaultDumpShape (name : String) (stored : List Nat) : List Nat :=',
          f'  if name = {_lean_q(i1.test.comparators[0].value)} then [] else if [' +
          ', '.join(_lean_q(e.value) for e in i2.test.comparators[0].elts) + '].contains name then [3] else stored', '']
    # the header line of the ATOMS item
    hk = [k for k, s in enumerate(body) if _is_stmt(s, "header = 'ITEM: ATOMS'")]
    want = ["for prop in prop_info:\n    header += ' ' + ' '.join(prop['table_name'])", "header += '\\n'", 'content += header']
    if len(hk) != 1 or [_u(s) for s in body[hk[0] + 1:hk[0] + 4]] != [_u(ast.parse(w).body[0]) for w in want]:
        _fail('atom_dump.dump: the ITEM: ATOMS line has changed')
    marker = ast.parse('content += __atoms_header__').body[0]
    body = body[:hk[0]] + [marker] + body[hk[0] + 4:]
    T, lets = _Text('atom_dump.dump', intvars={'system.natoms': ('nat', 'natoms')}, conds=dict(_PBC)), []
    T.strvars['__atoms_header__'] = ('pieces', [('lit', 'ITEM: ATOMS '), ('splice', 'names'), ('lit', '\n')])
    ts = _u(ast.parse("try:\n    content += '%i\\n' % system.timestep\nexcept:\n    content += '0\\n'").body[0])
    T.special[ts] = [('int', 'int', 'step'), ('lit', '\n')]
    T.blocks['table_dump'] = lambda n: 'rows' if _is(n, 'table_dump(system, prop_info=prop_info, float_format=float_format)') else _fail('atom_dump.dump: table call', n)

    def other(st):
        if _box_value(st, T, lets, "lammps_unit['length']"):
            return True
        if isinstance(st, ast.Assign) and isinstance(st.targets[0], ast.Name) and st.targets[0].id.endswith('_bound'):
            lets.append(f'  let {st.targets[0].id} := {T.num(st.value)}')
            T.numvars[st.targets[0].id] = True
            return True
        if isinstance(st, ast.Assign) and _is(st.targets[0], 'is_orthogonal'):
            lets.append(f'  let is_orthogonal : Bool := decide {T.cond(st.value)}')
            T.conds['is_orthogonal'] = 'is_orthogonal'
            return True
        return False
    doc = _doc(T.where, _walk(T, body, 'content', other), False)
    if ts not in [_u(s) for s in body]:
        _fail('atom_dump.dump: the TIMESTEP item has changed')
    L += ['/-- the text `atom_dump.dump` concatenates (`step` = `StepVal.step` of what the system holds, `names` = the column',
          '    names of all entries of prop_info in order, `rows` = the table). -/',
          'def genDumpDoc (f : Fmt) (lf : Option Rat) (b : HiLo) (pbc : V3 Bool) (step : Int) (natoms : Nat) (names : Line)',
          '    (rows : Doc) : Doc :=', *lets, '  ' + doc, '']
    res, mode = _route(tail, 'content', 'atom_dump.dump')
    flag = _returns_tail(tail, 'return_prop_info', 'prop_info', 'atom_dump.dump')
    L += [_lean_route('genDumpDeliver', res, 'wantExtra'), f'def genDumpFileMode : String := {_lean_q(mode)}',
          f'def genDumpExtraWhen : String := {_lean_q(flag)}',
          '/-- normalised-AST pins: the default prop_name / shape handling in front of the text, and `table_dump`. -/',
          f'def genDumpHeadPin : String := "{_pin(pre)}"',
          f'def genDumpTablePin : String := "{_pin(_func(tree, "table_dump", rel))}"', '']

    # ---------------------------------------------------------------- poscar/dump.py
    rel = 'atomman/dump/poscar/dump.py'
    tree = _module(rel)
    fn = _func(tree, 'dump', rel)
    L += [_lean_sig('poscarSignature', _signature(fn)), '']
    stmts = _stmts(fn)
    rk = [k for k, s in enumerate(stmts) if isinstance(s, ast.If) and _is(s.test, "hasattr(f, 'write')")]
    if len(rk) != 1 or rk[0] != len(stmts) - 1:
        _fail('poscar.dump: the hand-over of the text is not the last statement')
    body, tail = stmts[:rk[0]], stmts[rk[0]:]
    T = _Text('poscar.dump', strvars={'header': ('words', 'header.map strTok'), 'coordstyle': ('tok', 'coordstyle')},
              numvars={'box_scale': 'scale'}, conds={'symbols is not None': ('match', 'symbols', 'l')},
              splices={'symbols': 'l.map strTok'})
    for k, c in enumerate(('r0', 'r1', 'r2')):
        T.v3vars[f'vects[{k}]'] = f'(v3div vects.{c} scale)'
    T.v3vars['p'] = 'p'
    counts = _u(ast.parse("for i in range(1, system.natypes + 1):\n    count = counts[uatype == i]\n    if len(count) == 0:\n"
                          "        count = 0\n    else:\n        count = count[0]\n    poscar_string += '%i ' % count").body[0])
    T.special[counts] = [('splice+', 'counts.map natTok')]
    info = {'asserts': [], 'refuse': None, 'cart': None}
    rows = []

    def other(st):
        if isinstance(st, ast.Assert):
            info['asserts'].append(_u(st.test))
            return True
        if isinstance(st, ast.If) and len(st.body) == 1 and isinstance(st.body[0], ast.Raise) and not st.orelse \
                and 'box_scale' in _u(st.test):
            if not _u(st.body[0].exc).startswith('ValueError('):
                _fail('poscar.dump: refusal of a scale factor', st)
            info['refuse'] = T.cond(st.test)
            return True
        if _is_stmt(st, 'vects = system.box.vects / box_scale'):
            return True
        if _is_stmt(st, 'if symbols is None:\n    if None not in system.symbols:\n        symbols = system.symbols'):
            return True
        if _is_stmt(st, 'if not isinstance(symbols, (list, tuple)):\n    symbols = [symbols]'):
            return True
        if _is_stmt(st, "if len(symbols) != system.natypes:\n    raise ValueError('length of symbols differs from number of atom types')"):
            return True
        if _is_stmt(st, 'atype = system.atoms.atype') or _is_stmt(st, 'uatype, counts = np.unique(atype, return_counts=True)') \
                or _is_stmt(st, "pos = system.atoms_prop(key='pos', scale=scale)") \
                or _is_stmt(st, 'if scale is False:\n    pos = pos / box_scale'):
            return True
        if isinstance(st, ast.If) and isinstance(st.test, ast.Compare) and _is(st.test.left, 'coordstyle[0]') \
                and isinstance(st.test.ops[0], ast.In) and isinstance(st.test.comparators[0], ast.Constant) \
                and _is_stmt(st.body[0], 'scale = False') and st.orelse and _is_stmt(st.orelse[0], 'scale = True'):
            info['cart'] = st.test.comparators[0].value
            return True
        if isinstance(st, ast.For) and _is(st.iter, 'range(1, system.natypes + 1)') and _is(st.target, 'a'):
            inner = st.body[0] if len(st.body) == 1 else None
            if not (isinstance(inner, ast.For) and _is(inner.iter, 'pos[atype == a]') and _is(inner.target, 'p')
                    and len(inner.body) == 1 and isinstance(inner.body[0], ast.AugAssign)):
                _fail('poscar.dump: the coordinate rows', st)
            pcs = T.text(inner.body[0].value)
            if not pcs or pcs[0] != ('lit', '\n'):
                _fail('poscar.dump: a coordinate row does not start a new line', st)
            rows.append(_tokens(T.where, pcs[1:]))
            return True
        return False
    # the rows loop adds a block at its position: mark it
    pieces = []
    k_rows = [k for k, s in enumerate(body) if isinstance(s, ast.For) and _is(s.target, 'a')]
    if len(k_rows) != 1 or k_rows[0] != len(body) - 1:
        _fail('poscar.dump: the coordinate rows are not the last part of the text')
    pieces = _walk(T, body, 'poscar_string', other, True)
    if len(rows) != 1 or info['refuse'] is None or info['cart'] is None:
        _fail('poscar.dump: refusal / mode test / rows not found')
    pieces.append(('block', f'coords.map (fun p => {rows[0]})'))
    doc = _doc(T.where, pieces, True)
    if counts not in [_u(s) for s in body]:
        _fail('poscar.dump: the counts line has changed')
    L += ['/-- the text `poscar.dump` builds (`vects` = the cell vectors, `counts` = atoms per type 1..natypes, `coords` = the',
          '    rows grouped by type, Cartesian ones already divided by the factor). -/',
          'def genPoscarDoc (f : Fmt) (header : List String) (scale : Rat) (vects : M3 Rat) (symbols : Option (List String))',
          '    (counts : List Nat) (coordstyle : String) (coords : List (V3 Rat)) : Doc :=', '  ' + doc, '',
          '/-- the factor is refused when … -/', f'def genPoscarRefuses (scale : Rat) : Prop := {info["refuse"]}',
          '/-- first letters of the mode line that select Cartesian coordinates. -/',
          'def genCartesianChars : List Char := [' + ', '.join(f"'{c}'" for c in info['cart']) + ']',
          '/-- what must not occur in the comment / mode line. -/',
          'def genPoscarAsserts : List String := [' + ', '.join(_lean_q(a) for a in info['asserts']) + ']', '']
    res, mode = _route(tail, 'poscar_string', 'poscar.dump')
    L += [_lean_route('genPoscarDeliver', res, 'false'), f'def genPoscarFileMode : String := {_lean_q(mode)}', '']

    # ---------------------------------------------------------------- table/dump.py, table/df_to_table.py
    rel = 'atomman/dump/table/dump.py'
    tree = _module(rel)
    fn = _func(tree, 'dump', rel)
    L += [_lean_sig('tableSignature', _signature(fn)), '']
    stmts = _stmts(fn)
    ids = [s for s in stmts if isinstance(s, ast.Assign) and _is(s.targets[0], "df['a_id']")]
    if len(ids) != 1 or not (isinstance(ids[0].value, ast.Call) and _is(ids[0].value.func, 'range') and len(ids[0].value.args) == 2
                             and isinstance(ids[0].value.args[0], ast.Constant) and _is(ids[0].value.args[1], 'natoms + 1')):
        _fail('table.dump: the a_id column has changed')
    conv = [n for n in ast.walk(fn) if isinstance(n, ast.If) and any(isinstance(c, ast.Call) and _is(c.func, 'uc.get_in_units')
                                                                     for c in ast.walk(n))]
    scal = [n for n in ast.walk(fn) if isinstance(n, ast.If) and any(isinstance(c, ast.Call) and _is(c.func, 'scale.append')
                                                                     for c in ast.walk(n))]
    if len(conv) != 1 or len(scal) != 1:
        _fail('table.dump: the unit conversion / the list of scaled properties has changed')
    flag = _returns_tail(stmts, 'return_prop_info', 'prop_info', 'table.dump')
    tab = [s for s in stmts if isinstance(s, ast.Assign) and _is(s.targets[0], 'table')]
    if len(tab) != 1 or not _is(tab[0].value, 'df_to_table(df, f=f, header=header, float_format=float_format)'):
        _fail('table.dump: the call of df_to_table has changed')
    if not any(_is_stmt(s, 'if table is not None:\n    returns.append(table)') for s in stmts):
        _fail('table.dump: the returned table')
    rel2 = 'atomman/dump/table/df_to_table.py'
    fn2 = _func(_module(rel2), 'df_to_table', rel2)
    res, mode = _route(_stmts(fn2), 'table', 'df_to_table')
    L += ['/-- first value of the `a_id` column (`range(<this>, natoms + 1)`). -/',
          f'def genTableFirstId : Int := {int(ids[0].value.args[0].value)}',
          '/-- a column is divided by its unit when … / is box-relative when … -/',
          f'def genTableConvertsWhen : String := {_lean_q(_u(conv[0].test))}',
          f'def genTableScaledWhen : String := {_lean_q(_u(scal[0].test))}',
          _lean_route('genTableDeliver', res, 'wantExtra'), f'def genTableFileMode : String := {_lean_q(mode)}',
          f'def genTableExtraWhen : String := {_lean_q(flag)}',
          '/-- normalised-AST pins: `table.dump` (column assembly with pandas) and `df_to_table`. -/',
          f'def genTablePin : String := "{_pin(fn)}"', f'def genDfToTablePin : String := "{_pin(fn2)}"', '',
          'end Atomman.Gen.WriterSource', '']
    return '\n'.join(L)


def translate():
    t = extract_tables()
    L = ['/- GENERATED by harness/props/c07.py from atomman/dump/atom_data/{atoms,velocities}_prop_info.py,',
         '   atomman/dump/atom_dump/process_prop_info.py and atomman/lammps/style.py — do not edit. -/',
         'namespace Atomman.Gen.AtomStyles', '',
         '/-- (prop_name, table names, unit kind = key of `style.unit`, `"scaled"`, or none) -/',
         'abbrev Col := String × List String × Option String', '']
    for key, name, doc in (('atom', 'atomStyles', 'Atoms section of a data file, per atom_style'),
                           ('vel', 'velStyles', 'Velocities section of a data file, per atom_style')):
        L.append(f'/-- {doc} (an empty column list = the Python function raises for that style). -/')
        L.append(f'def {name} : List (String × List Col) := [')
        rows = []
        for st, cols in t[key]:
            rows.append(f'  ({_lean_str(st)}, [{", ".join(_lean_col(c) for c in cols)}])')
        L.append(',\n'.join(rows) + ']')
        L.append('')
    for key, name, doc in (('atom_hybrids', 'atomHybrids', 'atoms_prop_info'), ('vel_hybrids', 'velHybrids', 'velocities_prop_info')):
        L.append(f'/-- what `{doc}("hybrid " ++ sub-styles)` returns (every ordered pair of sub-styles, single sub-styles and a')
        L.append('    fixed set of longer hybrids): the actual list, with any duplicate entry it may contain. -/')
        L.append(f'def {name} : List (List String × List Col) := [')
        rows = []
        for subs, cols in t[key]:
            rows.append(f'  ([{", ".join(_lean_str(x) for x in subs)}], [{", ".join(_lean_col(c) for c in cols)}])')
        L.append(',\n'.join(rows) + ']')
        L.append('')
    L.append('/-- `standard_conversions` of the dump-file writer. -/')
    L.append('def dumpStandard : List Col := [')
    L.append(',\n'.join('  ' + _lean_col(c) for c in t['dump']) + ']')
    L.append('')
    L.append('/-- does every table (the hybrid composition included) use the unit style it was asked for? -/')
    L.append(f'def forwardsUnits : Bool := {"true" if t["hybrid_forwards_units"] else "false"}')
    L.append('')
    L.append('/-- `style.unit`: unit style ↦ (kind ↦ unit expression). -/')
    L.append('def unitStyles : List (String × List (String × Option String)) := [')
    rows = []
    for un in t['unit_names']:
        ents = []
        for k, v in t['unit_styles'][un]:
            if v is not None and not isinstance(v, str):
                raise TranslationError(f'style.unit({un!r})[{k!r}] is not a string')
            ents.append(f'({_lean_str(k)}, {"none" if v is None else "some " + _lean_str(v)})')
        rows.append(f'  ({_lean_str(un)}, [{", ".join(ents)}])')
    L.append(',\n'.join(rows) + ']')
    L.append('')
    L.append('end Atomman.Gen.AtomStyles\n')
    return {'AtomStyles': '\n'.join(L), 'WriterSource': translate_writers()}


# ----------------------------------------------------------------------------------------
# shared: case descriptions, the real calls, the wire encoding
# ----------------------------------------------------------------------------------------
THEOREMS = [
    # whole files: independent parser o writer, for every system (induction over atoms / columns / styles)
    'C07.data_parse_write', 'C07.data_wellformed', 'C07.data_unwrap_positions', 'C07.dump_parse_write', 'C07.poscar_parse_write',
    'C07.table_parse_write',
    # their building blocks that carry a clause of the property on their own
    'C07.layoutOf_styleCols', 'C07.atom_tables_agree', 'C07.vel_tables_agree', 'C07.atom_row', 'C07.vel_row',
    'C07.data_atoms_inside', 'C07.tilt_line_iff', 'C07.lexDoc_renderLines', 'C07.readDataFile_dataDoc',
    # numbers
    'C07.fmtFixed_error', 'C07.parseNum_fmtFixed', 'C07.fixedVal_error', 'C07.fmtExp_error', 'C07.parseNum_fmtExp',
    'C07.expVal_error', 'C07.expOf_spec', 'C07.parseNum_fmtNum', 'C07.parseInt_intTok',
    'C07.dump_bbox', 'C07.dump_bbox_corners', 'C07.dump_bbox_lo_lt_hi', 'C07.dump_bounds_error', 'C07.dump_bounds_error_fixed',
    'C07.poscar_scale', 'C07.info_names_used',
    'C07.atom_style_columns_match_lammps', 'C07.velocity_columns_match_lammps', 'C07.dump_columns_match_lammps',
    'C07.unit_styles_match_lammps',
    # every column list names a property once (hybrids of any length); the hybrid composition is the real one
    'C07.atom_columns_no_property_twice', 'C07.vel_columns_no_property_twice', 'C07.hybrid_samples_agree',
    # dump file: scaled position columns unscale to the positions
    'C07.dump_scaled_cells', 'C07.dump_scaled_unscale',
    # POSCAR: one count per atom type of the system, as many as the symbols line has names
    'C07.poscar_symbols_match_counts',
    # data file: explicit units= / atom_style= / natypes= win over a potential's, which win over the defaults
    'C07.requested_args_used', 'C07.requested_units_in_snippet',
    # per-atom tensors: names are row-major, the column called p[i][j] holds component (i, j)
    'C07.index_names_row_major', 'C07.index_names_rank2', 'C07.tensor_cells',
    # fourth round: derived units are composed of the style's own entries (distance x velocity x mass, 1/time,
    # distance^3); the TIMESTEP item is the whole number the system holds, whatever numeric type carries it
    'C07.derived_units_composed', 'C07.step_of_whole_number', 'C07.dump_timestep_line',
    # sixth round (source tie of the writer code): every definition regenerated from the four dump.py files equals the
    # hand model
    'C07.gen_dataBoxLines_eq_model', 'C07.gen_infoDoc_eq_model', 'C07.gen_resolveArgs_eq_model', 'C07.gen_dataDoc_eq_model',
    'C07.gen_flagColumns_eq_model', 'C07.gen_dataDeliver_eq_model', 'C07.gen_dumpDeliver_eq_model',
    'C07.gen_tableDeliver_eq_model', 'C07.gen_poscarDeliver_eq_model', 'C07.gen_fileModes_eq_model',
    'C07.gen_signatures_eq_model', 'C07.gen_dumpDoc_eq_model', 'C07.gen_poscarDoc_eq_model',
    'C07.gen_poscarRefuses_eq_model', 'C07.gen_cartesianChars_eq_model', 'C07.gen_tableIds_eq_model',
    'C07.gen_tableUnits_eq_model', 'C07.gen_pins_eq_model',
    # whole calls: where the text goes; the generated documents under the whole-file theorems; refusals of poscar.dump
    'C07.deliver_spec', 'C07.gen_files_are_model_files', 'C07.poscar_refusal_iff', 'C07.data_call_end_to_end',
    'C07.dump_call_end_to_end', 'C07.table_call_end_to_end', 'C07.poscar_call_end_to_end', 'C07.dump_refusal_iff',
    # the default columns of a dump file
    'C07.gen_defaultDump_eq_model', 'C07.default_dump_columns',
]
PARTIAL = {
    'pandas plumbing is pinned, not translated':
        'table.dump, atom_dump.table_dump, df_to_table (DataFrame column assembly, select + rename, to_csv) and the call of '
        'process_prop_info are held by normalised-AST hashes (gen_pins_eq_model) plus extracted constants (first id, '
        'conversion / scaled tests); their behaviour is tied to tableRows / propCells by the correspondence runs only',
    'inside the written bounds / lo < hi AFTER rounding':
        'data_wellformed proves "every atom inside the bounds" and "lo < hi" for the exact numbers the file prints (each '
        'printed number is within half a unit of its last place of them: fmtFixed_error / fmtExp_error) and lo < hi of the '
        'printed bounds for %.nf when the extent exceeds one unit of the last place; the propagated slack eps(box, format) for '
        'the rounded positions relative to the rounded box is not a theorem: it is evaluated by the oracle (dataWellFormed d '
        'eps on every real output)',
    'hypotheses of the whole-file theorems':
        'data: integer LAMMPS fields (mol, flags, spin, etag, ...) are stored as integer properties (IntTyped), else LAMMPS '
        'itself rejects the line; dump/table: column names are single words; POSCAR: atom types lie in 1..natypes, header/'
        'symbols/coordstyle are single-line words, the first symbol is not a number, coordstyle does not start with S/s '
        '(VASP reads that as "Selective dynamics"), the printed scale factor is positive',
    'dump positions by column variant':
        'dump_parse_write returns every row as written cells; dump_scaled_cells / dump_scaled_unscale prove that the xs/xsu '
        'cells are the relative coordinates and unscale (with the cell rebuilt from the exact header numbers) to position / '
        'length unit; the same after rounding every printed number is evaluated by the correspondence (dumpPositions on '
        'every real output) and the oracle, not proved',
    'unit given on a dump column by the caller':
        'the model derives every dump column spec from the property name (dumpCol); a unit the caller puts on an entry '
        '(unit="scaled" on pos itself next to spos / upos / supos) is exercised by the search only (posvariant_cases, '
        'check_dump(posscaled)), the 64 column orders of the four position variants with default units by both',
}
RULE = ('systems of 1-16 atoms (1-13 atom types) in orthogonal/triclinic cells (origin anywhere, all 8 pbc settings), atoms inside, outside and '
        'exactly on faces; two regimes: "grid" (power-of-two cell lengths, dyadic tilts/positions: the float arithmetic of '
        'wrap and of the writers is exact, texts must be identical) and "generic" doubles (texts compared to the printed '
        'precision); all 18 atom styles + hybrids x 8 unit styles, %.Nf / %.Ne formats of 1..16 digits, velocity and '
        'style-specific columns (hybrids of 1-5 sub-styles, more than half sharing a unit-bearing column; sequences of dumps in '
        'one process confirmed in a fresh interpreter; output to string / file name / stream; safecopy / return_info), dump '
        'files with scaled/unwrapped position columns and own atom ids, time steps up to 2^40, POSCAR direct/'
        'Cartesian with scale != 1, tables with unit/scaled columns; every writer under atomman\'s default working units, '
        'four named ones (SI, nm-g-ns-C, cm-amu-eV-e, angstrom-ps-J-C) and random numericalunits seeds (a quarter of the '
        'cases + a fixed matrix writer x working units x unit style), expected numbers from the hand-encoded LAMMPS units '
        'page evaluated with numericalunits\' constants, not with atomman.unitconvert; every writer x output route (string / '
        'file name / open stream) x target (new / existing and not empty: an earlier longer dump of a bigger system; a stream '
        'that already holds text), the target\'s content compared with the returned string; data files with a potential '
        'object and explicit / left-out units= atom_style= natypes=; per-atom tensors of shapes (3,3) (2,3) (3,2) (2,2,2) '
        '(1,3) (3,1,2), integer ones too, in dump files and tables, every column checked against the component its header '
        'names; columns in any requested order; ids and molecule ids beyond 2^31; C formats with width, flags + - blank 0 #, '
        '%E, no precision; search only: %g, values -0.0 / denormal / 1e300 / nan / inf; POSCAR with more symbols than '
        'types in use, comment / mode line with a line break (must be refused); distinct = distinct canonical request '
        'line; non-trivial = the real writer produced a file. Fourth round (counts and thresholds): every writer on systems '
        'of 2^k-1, 2^k, 2^k+1 atoms (k = 7..13), 1000, 1001, 2000, 4999, 5000, 10001 atoms (search: all four writers each; '
        'correspondence: one writer each, in turn), one system of 65537 atoms and one each of about 70 000 and about 140 000 '
        'atoms (sizes just below / at / above 65536 and 131072 among them) through every writer per run: counts, words per '
        'line and ids on EVERY row, numbers on a sample of rows (first / last three, every row within two of a power of '
        'two or of a multiple of 1000 / 4096 / 10000 / 65536, 200 drawn rows); sized systems on an exact grid or with '
        'generic coordinates (always above 100 000 atoms), outside atoms starting at an index (0, half, a power of two, '
        'the last atom); atoms 127 ... 100 000 cells away along periodic directions; the time step held as python int / '
        'whole-number float / numpy integers of every width, signed or not / numpy floats / 0-d arrays / None / not at all; '
        'a matrix of every unit-bearing column kind (velocity, force, charge, mass, radius, diameter, mu, mu_mag, '
        'ang_velocity, ang_momentum, torque; tables also density, volume) x 8 unit styles x 3 working-unit configurations '
        'under %e formats; integer arrays (atype, ids, molecule ids) of int8 ... uint64; flags as 0/1 and numpy bools, the '
        'POSCAR factor / natypes as numpy scalars, symbols as tuple; type numbers beyond 8 / 16 bits; per-atom vectors / '
        'tensors with two-digit component numbers; ids congruent modulo 2^8 / 2^16 / 2^32; every dump through the returned '
        'string is made twice on the same object (same file) with a snapshot of the system around it (unchanged, the '
        'documented wrap of a data file apart). Fifth round: dump files with every ordered non-empty subset of pos / spos / '
        'upos / supos (64 column orders) and, search only, each subset holding pos again with unit "scaled" on the pos '
        'entry itself (x y z or xs ys zs names), in cells away from the unit cube at the origin; thorough tier only: one '
        'system of 2^20 + 1 / 5 / 17 atoms through every writer, tables with and without the header line (row-count '
        'thresholds above ~1.4e5 atoms are out of reach of the quick tier). Sixth round: every writer x {no target, file '
        'name, open stream} x second return value asked for or not (which values come back, what arrives in the target, '
        'whether the snippet names the file; correspondence against the model op route, search against the rule written '
        'down independently); dump files without prop_name of systems whose own atom ids stand first / in the middle / '
        'last among the properties (default columns and shapes against the model op dumpdefaults)')
ASSUMPTIONS = [
    "CPython '%.Nf' / '%.Ne' of a double is the correctly rounded (half-even on ties) decimal of its exact value "
    '(checked against the model on every run, incl. ties and subnormals); a width and the flags + - blank 0 # and %E '
    'change blanks, a plus sign, leading zeros and the case of the exponent letter only (compared as numbers word by word)',
    'pandas DataFrame.to_csv(sep=" ", float_format=F) prints every float column value as F % value and int columns as '
    'decimal integers',
    'IEEE double rounding in wrap / unit conversion is bounded by 256 eps (max |value|, system size); cases the exact '
    'arithmetic places within 1e-8 of a wrap decision (periodic face, min<=0 / max>=1) are exempt from text comparison',
    'the hand-encoded LAMMPS tables (Atoms/Velocities line layouts of the read_data page as of the LAMMPS versions '
    'atomman targets: template = id mol template-index template-atom type x y z, smd without x0 y0 z0; dump custom '
    'attributes; units page) are transcribed correctly',
    'unit values (angstrom, ps, g/mol, ...) the MODEL is run with come from atomman.unitconvert (property C09); the oracle '
    'of the search evaluates the LAMMPS units page with numericalunits\' constants on its own (agreement with '
    'atomman.unitconvert to 1e-14 under every working-unit configuration used)',
    'units the LAMMPS page does not list are taken as composed: angular momentum = mass x velocity x distance, angular '
    'velocity = 1 / time, volume = distance^3, torque (per-atom tq columns) = force x distance; the statcoulomb is C / '
    '(10 c) and the Debye 1e-21 / c C m with c = 299792458; the "atomic time unit" of the electron style\'s velocity is '
    'hbar / Hartree (the page\'s bracketed 1.03275e-15 s is sqrt(amu Bohr^2 / Hartree): candidate electron-velocity-atu, '
    'docs/C07.md, not checked)',
    'a system without a time step (no attribute, or None) is written as step 0 (the convention of the writer; LAMMPS\' '
    'first step)',
    'a PotentialLAMMPS record built offline by potentials.build_lammps_potential carries units / atom_style / symbols like '
    'a downloaded one',
]
TRUSTED = ['numpy/pandas in the real writers', 'the writer translator (symbolic evaluation of the string-building '
           'statements of the four dump.py files; which Python variable stands for which model argument: atom_style -> '
           'words of the style, units / f / coordstyle -> one word, header -> word list)', 'the Python oracle parsers in harness/props/c07.py (cross-checked against the '
           'Lean parsers on every real output)']
MANIFEST = {
    'text': 'Lean model of the four writers (exact %.Nf/%.Ne printing of rationals, wrap with image flags, header/box/'
            'Atoms/Velocities layout, dump bounding box, POSCAR scaling) plus independent parsers written from the LAMMPS/'
            'VASP format rules. Whole-file theorems, for EVERY system, atom_style (hybrids included), unit factors and '
            '%.nf/%.ne format: independent parser applied to the written text = the system normalised by wrap / type '
            'grouping with every number at its printed precision (data_parse_write, dump_parse_write, poscar_parse_write, '
            'table_parse_write); data_wellformed (counts match, ids exactly 1..N, lo<hi, every atom inside the written '
            'bounds via the C05 wrap lemmas, tilt line iff a tilt is non-zero); the LAMMPS line layout of every style equals '
            'the written columns field for field and unit kind for unit kind (layoutOf_styleCols); reading back a printed '
            'number is within half a unit of the last place (%.nf and %.ne), bounding-box identities and inverse, POSCAR '
            'scale applies to lattice and Cartesian rows, the command snippet names the units/atom_style/boundary used, '
            'generated atom-style/dump/unit tables equal the hand-encoded LAMMPS tables; every column list (hybrids of any '
            'length) names a property once and the hybrid composition equals the regenerated real hybrid lists; scaled dump '
            'columns unscale to the positions; derived units (angular momentum, angular velocity, volume) are composed of '
            'the style\'s own entries; the TIMESTEP item is the whole number the system holds whatever numeric type carries '
            'it. Sixth round: the writer code itself is regenerated with ast into Generated/WriterSource.lean (line '
            'layouts and their order, box lines and tilt test, bounding-box formulas, pp/fm flags, argument defaults and '
            'signatures, POSCAR lines / refusal / mode letters, default dump columns, where the text goes) and proved '
            'equal to the model (19 gen_..._eq_model obligations, 4 normalised-AST pins for the pandas plumbing); whole '
            'calls end to end (data_call_end_to_end, dump_/table_/poscar_call_end_to_end: option handling, output '
            'route, independent parser, snippet), deliver_spec, poscar_refusal_iff, default_dump_columns. '
            'Tie: text equality atomman-vs-model '
            'on every case (exact on the dyadic grid), Lean parsers applied to the real output and compared with the system; '
            'failing-input search with an independent Python parser.',
    'note': 'Trusted: Lean kernel + propext/Classical.choice/Quot.sound; the table extractor (exec of the pure prop_info '
            'functions with a symbolic style.unit) and the correspondence harness; CPython/pandas number printing; the '
            'hand-transcribed LAMMPS manual tables.',
    'technique': 'Lean 4 theorems over a hand-written model + translator-generated tables and writer documents (proved equal to the model) + differential correspondence',
}

# per-atom properties each atom_style needs besides id/type/pos: (prop, is_int, ncomp)
STYLE_PROPS = {
    'angle': [('m_id', 1, 1)], 'atomic': [], 'body': [('bflag', 1, 1), ('mass', 0, 1)], 'bond': [('m_id', 1, 1)],
    'charge': [('charge', 0, 1)], 'dipole': [('charge', 0, 1), ('mu', 0, 3)],
    'electron': [('charge', 0, 1), ('espin', 1, 1), ('eradius', 0, 1)],
    'ellipsoid': [('eflag', 1, 1), ('density', 0, 1)], 'full': [('m_id', 1, 1), ('charge', 0, 1)],
    'line': [('m_id', 1, 1), ('lflag', 1, 1), ('density', 0, 1)], 'meso': [('rho', 0, 1), ('e', 0, 1), ('cv', 0, 1)],
    'molecular': [('m_id', 1, 1)], 'peri': [('volume', 0, 1), ('density', 0, 1)],
    'smd': [('m_id', 1, 1), ('volume', 0, 1), ('mass', 0, 1), ('kradius', 0, 1), ('cradius', 0, 1)],
    'sphere': [('diameter', 0, 1), ('density', 0, 1)],
    'template': [('m_id', 1, 1), ('m_template', 1, 1), ('a_template', 1, 1)],
    'tri': [('m_id', 1, 1), ('tflag', 1, 1), ('density', 0, 1)],
    'wavepacket': [('charge', 0, 1), ('espin', 1, 1), ('eradius', 0, 1), ('e_id', 1, 1), ('cs_re', 0, 1), ('cs_im', 0, 1)],
}
VEL_PROPS = {'electron': [('eradial_velocity', 0, 1)], 'ellipsoid': [('ang_momentum', 0, 3)],
             'sphere': [('ang_velocity', 0, 3)]}
UNIT_STYLES = ['metal', 'real', 'si', 'cgs', 'electron', 'micro', 'nano', 'lj']
WIRE_KINDS = ['length', 'mass', 'charge', 'dipole', 'density', 'velocity', 'force', 'ang-mom', 'ang-vel', 'volume',
              'force*length']


def _np():
    import numpy as np
    return np


def F(x):
    return Fraction(float(x)) if not isinstance(x, (int, Fraction)) else Fraction(x)


_RAWFMT = re.compile(r'^%([-+ 0#]*)(\d*)(?:\.(\d+))?([feEgG])$')


def fmt_py(ff):
    """the C-style format string of a case: 'f13' -> '%.13f', 'e8' -> '%.8e' (the two families the model prints);
    a string starting with '%' is a raw format given to the writer as it is (width, flags, %g, no precision)."""
    return ff if ff.startswith('%') else '%.' + ff[1:] + ff[0]


def fmt_parts(ff):
    """-> (flags, width, precision, conversion) of any case format."""
    if not ff.startswith('%'):
        return '', 0, int(ff[1:]), ff[0]
    m = _RAWFMT.match(ff)
    if not m:
        raise ValueError(f'format {ff!r}')
    return m.group(1), int(m.group(2) or 0), int(m.group(3)) if m.group(3) is not None else 6, m.group(4)


def fmt_base(ff):
    """the plain '%.Nf' / '%.Ne' format that prints the same digits (what the model is asked for), None for %g."""
    _fl, _w, n, cv = fmt_parts(ff)
    if cv in 'gG':
        return None
    return ('f' if cv == 'f' else 'e') + str(n)


def fmt_family(ff):
    """'f' (absolute precision) or 'e' (relative precision, n digits after the leading one)."""
    _fl, _w, n, cv = fmt_parts(ff)
    if cv == 'f':
        return 'f', n
    if cv in 'eE':
        return 'e', n
    return 'e', max(n, 1) - 1            # %g: max(n,1) significant digits


def squeeze_blanks(text):
    """runs of blanks -> one blank, leading/trailing blanks of a line dropped (what a width or a blank/minus flag
    adds; every format compared here is read by splitting at white space)."""
    return '\n'.join(' '.join(l.split()) for l in text.split('\n'))


# ---- working units ----------------------------------------------------------------------
# atomman stores every number in "working units" chosen with uc.reset_units; the writers must give the system in the
# requested LAMMPS unit style whatever they are.  A case carries `wu`: None (atomman's default: angstrom, amu, eV,
# e), {'kw': {...}} (named working units) or {'seed': n} (numericalunits' random working units).
WU_DEFAULT = {'length': 'angstrom', 'mass': 'amu', 'energy': 'eV', 'charge': 'e'}
WU_NAMED = [{'kw': {'length': 'm', 'mass': 'kg', 'time': 's', 'charge': 'C'}},              # SI
            {'kw': {'length': 'nm', 'mass': 'g', 'time': 'ns', 'charge': 'C'}},
            {'kw': {'length': 'cm', 'mass': 'amu', 'energy': 'eV', 'charge': 'e'}},
            {'kw': {'length': 'angstrom', 'time': 'ps', 'energy': 'J', 'charge': 'C'}}]
_wu_state = {'key': 'default'}


def wu_key(wu):
    if not wu:
        return 'default'
    if 'seed' in wu:
        return f'seed:{wu["seed"]}'
    return 'kw:' + ','.join(f'{k}={v}' for k, v in sorted(wu['kw'].items()))


def ensure_wu(wu):
    """switch atomman's working units to those of a case (no-op when they are set already)."""
    import atomman.unitconvert as uc
    k = wu_key(wu)
    if k == _wu_state['key']:
        return
    if not wu:
        uc.reset_units(**WU_DEFAULT)
    elif 'seed' in wu:
        uc.reset_units(seed=wu['seed'])
    else:
        uc.reset_units(**wu['kw'])
    _wu_state['key'] = k


def gen_wu(rng, p=0.3):
    r = rng.random()
    if r >= p:
        return None
    if r < p * 0.55:
        return dict(rng.choice(WU_NAMED))
    return {'seed': rng.randint(1, 10 ** 6)}


def nu_value(expr):
    """value of a unit expression in the CURRENT working units, evaluated here from numericalunits' own
    attributes with Python arithmetic — not by atomman.unitconvert's parser / get_in_units."""
    import numericalunits as nu
    names = set(re.findall(r'[A-Za-z_]\w*', re.sub(r'\d(?:\.\d*)?[eE][-+]?\d+', '0', expr)))
    ns = {}
    for n in names:
        v = getattr(nu, n, None)
        if not isinstance(v, float):
            raise KeyError(n)
        ns[n] = Fraction(v)
    py = re.sub(r'(\d(?:\.\d*)?[eE][-+]?\d+|\d+\.\d*)', lambda m: f'Fr("{m.group(1)}")', expr).replace('^', '**')
    ns['Fr'] = Fraction
    return eval(py, {'__builtins__': {}}, ns)      # noqa: S307 — expressions are the literals of ORACLE_UNITS


# what one "metal" unit of each per-atom property is, for bringing a generated system (numbers of order one in
# angstrom / ps / eV / e) into other working units; the oracle never relies on this: it reads the stored floats
METAL_OF = {'velocity': 'angstrom/ps', 'force': 'eV/angstrom', 'charge': 'e', 'mass': 'g/mol', 'mu': 'e*angstrom',
            'mu_mag': 'e*angstrom', 'density': 'g/cm^3', 'volume': 'angstrom^3', 'diameter': 'angstrom',
            'radius': 'angstrom', 'eradius': 'angstrom', 'kradius': 'angstrom', 'cradius': 'angstrom',
            'ang_momentum': 'g/mol*angstrom/ps*angstrom', 'ang_velocity': '1/ps', 'torque': 'eV',
            'eradial_velocity': 'angstrom/ps'}


def scale_desc(d, wu):
    """the same physical system under other working units: every stored number times its metal unit."""
    if not wu:
        return d
    ensure_wu(wu)
    L = float(nu_value('angstrom'))
    d = dict(d)
    d['vects'] = [[v * L for v in r] for r in d['vects']]
    d['origin'] = [v * L for v in d['origin']]
    d['pos'] = [[v * L for v in r] for r in d['pos']]
    props = {}
    for name, (is_int, shape, arr) in d['props'].items():
        if name in METAL_OF and not is_int:
            f = float(nu_value(METAL_OF[name]))
            arr = [[v * f for v in r] for r in arr]
        props[name] = (is_int, shape, arr)
    d['props'] = props
    d['regime'] = 'generic'
    return d


def base_styles(style):
    w = style.split()
    return w[1:] if w and w[0] == 'hybrid' else w


def needed_props(style, with_velocity):
    out, seen = [], set()
    for b in base_styles(style):
        for p in STYLE_PROPS.get(b, []):
            if p[0] not in seen:
                seen.add(p[0])
                out.append(p)
    if with_velocity:
        out.append(('velocity', 0, 3))
        for b in base_styles(style):
            for p in VEL_PROPS.get(b, []):
                if p[0] not in seen:
                    seen.add(p[0])
                    out.append(p)
    return out


_ufac_cache = {}


def unit_factors(units):
    """kind -> exact factor (Fraction) | None, for the kinds atomman's style.unit(units) defines (in the current
    working units): the parameters the MODEL is run with."""
    key = (_wu_state['key'], units)
    if key not in _ufac_cache:
        _ufac_cache[key] = _unit_factors(units)
    return _ufac_cache[key]


def _unit_factors(units):
    import atomman.unitconvert as uc
    from atomman.lammps import style
    d = style.unit(units)
    out = {}
    for kind in WIRE_KINDS:
        parts = kind.split('*')
        if not all(p in d for p in parts):
            continue
        strs = [d[p] for p in parts]
        if any(s is None for s in strs):
            out[kind] = None
            continue
        try:
            out[kind] = Fraction(float(uc.set_in_units(1.0, '*'.join(strs))))
        except Exception:  # unit expression atomman cannot evaluate ('None*None*None')
            continue
    return out


def enc_units(fac):
    return f'{len(fac)} ' + ' '.join(f'{k} {"none" if v is None else cm.fr(v)}' for k, v in fac.items())


def enc_sys(d):
    np = _np()
    toks = [('1' if b else '0') for b in d['pbc']]
    toks += [cm.fr(v) for v in np.asarray(d['vects'], dtype=float).ravel()]
    toks += [cm.fr(v) for v in d['origin']]
    toks += [str(d['natypes']), str(len(d['atype']))]
    toks += [str(int(t)) for t in d['atype']]
    toks += [cm.fr(v) for v in np.asarray(d['pos'], dtype=float).ravel()]
    toks.append(str(len(d['props'])))
    for name, (is_int, shape, arr) in d['props'].items():
        a = np.asarray(arr)
        nc = int(np.prod(shape)) if shape else 1
        toks += [name, '1' if is_int else '0', str(nc)]
        toks += [cm.fr(v) for v in a.reshape(len(d['atype']), nc).ravel().tolist()]
    return ' '.join(toks)


def build_system(d):
    import atomman as am
    np = _np()
    props = {}
    idt = d.get('idt') or {}
    for name, (is_int, shape, arr) in d['props'].items():
        props[name] = np.array(arr, dtype=np.dtype(idt.get(name, 'int64')) if is_int else float).reshape((len(d['atype']),) + tuple(shape))
    atoms = am.Atoms(atype=np.array(d['atype'], dtype=np.dtype(idt.get('atype', 'int64'))), pos=np.array(d['pos'], dtype=float), **props)
    box = am.Box(vects=np.array(d['vects'], dtype=float), origin=np.array(d['origin'], dtype=float))
    kw = {}
    if d.get('symbols') is not None:
        kw['symbols'] = d['symbols']
    if d.get('masses') is not None:
        kw['masses'] = list(d['masses'])      # per-type masses a system loaded from a data file / built for a potential has
    s = am.System(atoms=atoms, box=box, pbc=list(d['pbc']), **kw)
    if not (np.array_equal(s.box.vects, np.array(d['vects'], dtype=float))
            and np.array_equal(s.atoms.pos, np.array(d['pos'], dtype=float))):
        raise cm.InfraError('System constructor changed the inputs')
    if d.get('symbols') is not None and s.natypes != d['natypes']:
        raise cm.InfraError(f'System has {s.natypes} atom types, the case expects {d["natypes"]}')
    return s


def err_class(e):
    if isinstance(e, AssertionError):
        return 'err:assert'
    if isinstance(e, (KeyError, ValueError, IndexError)):
        return 'err:value'
    if isinstance(e, TypeError):
        return 'err:type'
    return 'err:' + type(e).__name__


def hexs(s):
    return s.encode('ascii').hex() or '-'


def unhex(t):
    return '' if t == '-' else bytes.fromhex(t).decode('ascii')


# ---- generators -------------------------------------------------------------------------

def gen_box(rng, regime, lammps=True):
    """(vects, origin) as python floats. grid: power-of-two lengths, dyadic tilts |tilt| < length."""
    if regime == 'grid':
        lx, ly, lz = (float(rng.choice([1, 2, 4, 8, 16])) for _ in range(3))
        kind = rng.random()
        if kind < 0.35:
            xy = xz = yz = 0.0
        else:
            xy = rng.choice([0, 0, 1, -1, 2, -2, 3, -3]) * lx / 8
            xz = rng.choice([0, 0, 1, -1, 2, -3, 4, -4]) * lx / 8
            yz = rng.choice([0, 0, 1, -1, 2, -2, 3, 4]) * ly / 8
        origin = [rng.randint(-64, 64) / 8 if rng.random() < 0.7 else 0.0 for _ in range(3)]
    else:
        lx, ly, lz = (rng.uniform(1.5, 25.0) for _ in range(3))
        kind = rng.random()
        if kind < 0.3:
            xy = xz = yz = 0.0
        elif kind < 0.8:
            xy, xz, yz = rng.uniform(-0.5, 0.5) * lx, rng.uniform(-0.5, 0.5) * lx, rng.uniform(-0.5, 0.5) * ly
        elif kind < 0.9:
            xy, xz, yz = 0.0, 0.0, rng.uniform(-0.5, 0.5) * ly      # only yz tilted
        else:
            xy, xz, yz = rng.uniform(-1.4, 1.4) * lx, rng.uniform(-1.4, 1.4) * lx, rng.uniform(-1.4, 1.4) * ly
        origin = [rng.uniform(-30, 30) if rng.random() < 0.7 else 0.0 for _ in range(3)]
    vects = [[lx, 0.0, 0.0], [xy, ly, 0.0], [xz, yz, lz]]
    if not lammps:
        # a rotated / permuted cell (not LAMMPS-normal)
        p = rng.choice([[1, 2, 0], [2, 0, 1], [0, 2, 1], [1, 0, 2]])
        vects = [[vects[i][p[j]] for j in range(3)] for i in range(3)]
        if rng.random() < 0.5:
            vects[0] = [-v for v in vects[0]]
    return vects, origin


FAR_CELLS = [127, 128, 129, 255, 256, 257, 1000, 32767, 32768, 32769, 65535, 65536, 65537, 100000]


def gen_positions(rng, regime, vects, origin, n, pbc=None):
    """positions inside, outside and exactly on faces (grid: exact dyadic relative coordinates); with `pbc`, now and
    then an atom hundreds or tens of thousands of cells away along a periodic direction (an unwrapped trajectory):
    image flags beyond what 8 or 16 bits hold."""
    V = [[Fraction(v) for v in r] for r in vects]
    O = [Fraction(v) for v in origin]
    pos = []
    mode = rng.choice(['inside', 'mixed', 'mixed', 'faces', 'far'])
    veryfar = pbc is not None and any(pbc) and rng.random() < 0.08
    for _ in range(n):
        if regime == 'grid':
            s = []
            for _i in range(3):
                m = mode if mode != 'mixed' else rng.choice(['inside', 'faces', 'far', 'inside'])
                if m == 'inside':
                    s.append(Fraction(rng.randint(1, 15), 16))
                elif m == 'faces':
                    s.append(Fraction(rng.choice([0, 1, 0, 1, -1, 2])))
                else:
                    s.append(Fraction(rng.randint(-48, 64), 16))
            p = [float(sum(s[i] * V[i][j] for i in range(3)) + O[j]) for j in range(3)]
        else:
            rngs = {'inside': (0.02, 0.98), 'mixed': (-1.5, 2.5), 'faces': (-0.3, 1.3), 'far': (-4.0, 5.0)}[mode]
            s = [rng.uniform(*rngs) for _i in range(3)]
            p = [sum(s[i] * vects[i][j] for i in range(3)) + origin[j] for j in range(3)]
        if veryfar and rng.random() < 0.5:
            i = rng.choice([i for i in range(3) if pbc[i]])
            m = rng.choice(FAR_CELLS) * rng.choice([1, -1])
            p = [float(Fraction(p[j]) + m * V[i][j]) for j in range(3)] if regime == 'grid' else \
                [p[j] + m * vects[i][j] for j in range(3)]
        pos.append(p)
    return pos


def gen_value(rng, regime, is_int, scale=8.0):
    if is_int:
        return rng.randint(-3, 9)
    if regime == 'grid':
        return rng.randint(-int(scale * 16), int(scale * 16)) / 16
    r = rng.random()
    if r < 0.1:
        return 0.0
    if r < 0.2:
        return rng.uniform(-1, 1) * 10 ** rng.randint(-6, 4)
    return rng.uniform(-scale, scale)


def prop_shape(nc):
    """(name, is_int, nc) entries give the number of components of a vector or the whole shape of a tensor."""
    return tuple(nc) if isinstance(nc, (tuple, list)) else () if nc == 1 else (nc,)


INT_DTYPES = ['int8', 'int16', 'int32', 'uint8', 'uint16', 'uint32', 'uint64']


def int_dtypes_for(lo, hi, margin=0):
    """integer types (other than the usual int64) that hold every value in lo..hi (+margin above)."""
    np = _np()
    return [t for t in INT_DTYPES if np.iinfo(t).min <= lo and hi + margin <= np.iinfo(t).max]


def pick_int_dtypes(rng, d, p=0.25):
    """atomman keeps the integer type an array comes with (atype read from a binary file as uint8, ids as uint32,
    molecule ids as int16): the written integers must not depend on it."""
    if rng.random() >= p:
        return
    idt = {}
    n = len(d['atype'])
    if rng.random() < 0.7:
        idt['atype'] = rng.choice(int_dtypes_for(1, max(d['atype']) + 3))
    for name, (is_int, _shape, arr) in d['props'].items():
        if is_int and rng.random() < 0.7:
            vals = [v for r in arr for v in r]
            ok = int_dtypes_for(min(vals), max(vals), margin=2 * n + 8 if name == 'atom_id' else 0)
            if ok:
                idt[name] = rng.choice(ok)
    if idt:
        d['idt'] = idt


def gen_desc(rng, regime, props=(), lammps=True, nmax=10, many_types=0.06, big_types=0.0, big_types_max=None):
    n = rng.randint(1, nmax)
    vects, origin = gen_box(rng, regime, lammps)
    ntyp = rng.randint(1, 3)
    if rng.random() < many_types:
        ntyp = rng.randint(10, 13)                # two-digit type numbers
        n = max(n, rng.randint(8, 16))
    atype = [rng.randint(1, ntyp) for _ in range(n)]
    if ntyp >= 10:
        k = rng.sample(range(n), 2)
        atype[k[0]], atype[k[1]] = ntyp, rng.randint(10, ntyp)
    if big_types and rng.random() < big_types:
        # type numbers that do not fit 8 / 16 bits (most types without atoms)
        top = rng.choice([255, 256, 257, 300, 1024, 32768, 65537] if big_types_max is None else [255, 256, 257, 300])
        atype = [rng.choice([1, 2, top - 1, top, rng.randint(1, top)]) for _ in range(n)]
        atype[rng.randrange(n)] = top
    if rng.random() < 0.15:
        atype = [t + 1 for t in atype]            # type 1 absent
    natypes = max(atype)
    d = {'pbc': [rng.random() < 0.6 for _ in range(3)], 'vects': vects, 'origin': origin, 'atype': atype,
         'natypes': natypes, 'props': {}, 'symbols': None, 'regime': regime}
    r = rng.random()
    if r < 0.3:
        d['pbc'] = [True, True, True]
    elif r < 0.4:
        d['pbc'] = [False, False, False]
    d['pos'] = gen_positions(rng, regime, vects, origin, n, d['pbc'])
    for name, is_int, nc in props:
        shape = prop_shape(nc)
        ncomp = 1
        for x in shape:
            ncomp *= x
        d['props'][name] = (bool(is_int), shape, [[gen_value(rng, regime, is_int) for _ in range(ncomp)] for _ in range(n)])
    if rng.random() < 0.15 and natypes < 100:
        d['masses'] = [rng.choice([1.008, 26.9815385, 63.546, 183.84]) * rng.choice([1.0, 1.5]) for _ in range(natypes)]
    if 'm_id' in d['props'] and rng.random() < 0.1:
        # molecule ids beyond 32 bits (LAMMPS "bigbig" tagint)
        big = rng.choice([2 ** 31, 2 ** 32 + 5, 2 ** 40])
        d['props']['m_id'] = (True, (), [[big + rng.randint(0, 50)] for _ in range(n)])
    return d


def pick_format(rng, units, raw=0.0, g_ok=False):
    """fixed-point formats cannot resolve Angstrom-sized numbers written in metres / centimetres: use %e there.
    With probability `raw` the format carries what C's printf allows besides a precision: a width, the flags
    + - blank 0 #, upper case E, no precision at all, and (g_ok: no model counterpart) %g."""
    if units in ('si', 'cgs'):
        ff = rng.choice(['e13', 'e8', 'e5', 'e16'])
    else:
        ff = rng.choice(FORMATS_F)
    if rng.random() >= raw:
        return ff
    return raw_format(rng, ff, g_ok)


def raw_format(rng, ff, g_ok=False):
    cv, n = ff[0], int(ff[1:])
    r = rng.random()
    if g_ok and r < 0.3:
        return rng.choice(['%.{}g', '%#.{}g', '%{w}.{}g', '%.{}G', '%+.{}g']).replace('{w}', str(n + 10)).format(max(n, 2)) \
            if rng.random() < 0.9 else '%g'
    if r < 0.4:
        return f'%{n + rng.choice([4, 8, 12])}.{n}{cv}'                          # width: padded with blanks on the left
    if r < 0.6:
        return f'%{rng.choice(["+", " ", "-", "0", "#", "+0", "- "])}{n + 9}.{n}{cv}'   # flags (with a width)
    if r < 0.8:
        return f'%{rng.choice(["+", " ", "#"])}.{n}{cv}'                          # flags without a width
    if r < 0.9 and cv == 'e':
        return f'%.{n}E'
    return '%' + cv if rng.random() < 0.5 else f'%{rng.choice([10, 14])}{cv}'      # no precision: six digits


FORMATS_F = ['f13', 'f13', 'f13', 'f5', 'f8', 'f3', 'f16', 'f1', 'e13', 'e8', 'e5']


# ---- the real calls ---------------------------------------------------------------------

class ChannelMismatch(Exception):
    """what reached a file / stream is not what the same call returns as a string (clause 'channel'); the dump
    changed the system it was given ('system-changed'); the same object dumped twice gives two files ('second-dump')."""

    def __init__(self, msg, clause='channel'):
        super().__init__(msg)
        self.clause = clause


def system_snapshot(system, positions=True):
    """bytes of everything a file is written from: cell, periodicity, every per-atom array (dtype and shape
    included), symbols, masses."""
    np = _np()
    snap = {'pbc': np.array(system.pbc), 'symbols': tuple(system.symbols), 'masses': tuple(system.masses),
            'natoms': system.natoms}
    if positions:          # wrapping (data file without safecopy) moves atoms and extends the cell along non-periodic directions
        snap.update({'box.vects': np.array(system.box.vects), 'box.origin': np.array(system.box.origin)})
    for name in system.atoms_prop():
        if name == 'pos' and not positions:
            continue
        a = system.atoms.view[name]
        snap['atoms.' + name] = (str(a.dtype), a.shape, a.tobytes())
    return snap


def snapshot_diff(a, b):
    np = _np()
    out = []
    for k in sorted(set(a) | set(b)):
        x, y = a.get(k), b.get(k)
        same = (x is not None and y is not None and
                (np.array_equal(x, y) and x.dtype == y.dtype if hasattr(x, 'dtype') else x == y))
        if not same:
            out.append(k if x is not None and y is not None else f'{k} ({"added" if x is None else "removed"})')
    return out


PREFILL = '# earlier content of the stream\n'


def bigger_desc(d):
    """an "earlier snapshot" for a target that already exists: the same kind of system with more than twice the
    atoms in a cell twice as large (its file is longer than the one written over it)."""
    n = len(d['atype'])
    b = dict(d)
    b['vects'] = [[2.0 * v for v in r] for r in d['vects']]
    b['atype'] = list(d['atype']) * 2 + [d['atype'][0]] * 3
    b['pos'] = [list(p) for p in d['pos']] * 2 + [list(d['pos'][0]) for _ in range(3)]
    props = {}
    for name, (is_int, shape, arr) in d['props'].items():
        rows = [list(r) for r in arr] * 2 + [list(arr[0]) for _ in range(3)]
        if name == 'atom_id':
            top = max(r[0] for r in arr)
            rows = [list(r) for r in arr] + [[top + 1 + k] for k in range(n + 3)]
        props[name] = (is_int, shape, rows)
    b['props'] = props
    return b


def _dump_via(build, fmt, out, pre=False, **kw):
    """System.dump through one of its three output channels: the returned string (`out` None), a file name
    ('path:<name>') or an open text stream ('stream').  `build(big=False)` makes a fresh system for every call.
    With `pre` the target exists already and is not empty: the file holds an earlier, longer dump of a bigger system
    written by the same call; the stream holds a line of text and stands at its end.  What arrives in the target
    must be what the same call returns as a string (after the earlier text, for a stream).
    -> (text, other return values)"""
    if out is None:
        system = build()
        wraps = fmt == 'atom_data' and not kw.get('safecopy')      # documented: the caller's system gets wrapped
        before = system_snapshot(system, positions=not wraps)
        r = system.dump(fmt, **kw)
        text = r if isinstance(r, str) else r[0]
        changed = snapshot_diff(before, system_snapshot(system, positions=not wraps))
        if changed:
            raise ChannelMismatch(f'the dump changed the system it was given: {changed}', 'system-changed')
        if system.natoms > 20000:
            return (r, None) if isinstance(r, str) else (r[0], r[1:])
        # the same object once more: what a writer remembers about / leaves behind in the system must not show
        r2 = system.dump(fmt, **kw)
        text2 = r2 if isinstance(r2, str) else r2[0]
        if text2 != text and not wraps:
            k = next((i for i, (a, b) in enumerate(zip(text, text2)) if a != b), min(len(text), len(text2)))
            raise ChannelMismatch(f'the same system dumped twice in a row gives two different files: first difference at '
                                  f'character {k}: {text[k:k + 40]!r} vs {text2[k:k + 40]!r}', 'second-dump')
        return (r, None) if isinstance(r, str) else (r[0], r[1:])
    if out == 'stream':
        import io
        buf = io.StringIO()
        if pre:
            buf.write(PREFILL)
        r = build().dump(fmt, f=buf, **kw)
        text = buf.getvalue()
        if pre:
            if not text.startswith(PREFILL):
                raise ChannelMismatch(f'an open stream that held {PREFILL!r} and stood at its end starts with '
                                      f'{text[:40]!r} after the dump')
            text = text[len(PREFILL):]
    else:
        import os
        import shutil
        import tempfile
        name = out.split(':', 1)[1]
        tmp = tempfile.mkdtemp(prefix='c07_')
        cwd = os.getcwd()
        os.chdir(tmp)
        try:
            if pre:
                build(big=True).dump(fmt, f=name, **kw)
                if not os.path.getsize(name):
                    raise cm.InfraError('the earlier dump left an empty file')
            r = build().dump(fmt, f=name, **kw)
            with open(name, newline='') as fh:
                text = fh.read()
        finally:
            os.chdir(cwd)
            shutil.rmtree(tmp, ignore_errors=True)
    ref = build().dump(fmt, **kw)
    ref = ref if isinstance(ref, str) else ref[0]
    if text != ref:
        k = next((i for i, (a, b) in enumerate(zip(text, ref)) if a != b), min(len(text), len(ref)))
        where = ('the file name of an existing, longer file' if pre else 'a file name') if out != 'stream' else 'an open stream'
        raise ChannelMismatch(f'written to {where} the content differs from the string the same call returns: '
                              f'{len(text)} characters ({text.count(chr(10))} line ends) instead of {len(ref)} '
                              f'({ref.count(chr(10))}), first difference at character {k}: {text[k:k + 40]!r} vs '
                              f'{ref[k:k + 40]!r}')
    return text, r


_pot_cache = {}
POT_SYMBOLS = ['Al', 'Cu', 'Fe', 'Ni', 'Ag', 'Au', 'Pt', 'Pd', 'Ti', 'Zr', 'Nb', 'Mo', 'Ta', 'W']


def build_potential(spec):
    """a PotentialLAMMPS record object built offline (no network): spec = {'units', 'atom_style', 'symbols'}."""
    key = (spec['units'], spec['atom_style'], tuple(spec['symbols']))
    if key not in _pot_cache:
        import potentials
        _pot_cache[key] = potentials.build_lammps_potential(
            pair_style='eam/alloy', id='c07-pot', symbols=list(spec['symbols']), elements=list(spec['symbols']),
            paramfile='c07.eam.alloy', units=spec['units'], atom_style=spec['atom_style']).potential()
    return _pot_cache[key]


def real_data(d, style, units, ff, natypes=None, fname=None, opts=None, pre=False, potential=None, ntform=None):
    """`style`, `units`, `natypes` are the ARGUMENTS of the call (None = left out).
    -> ('ok', text, info | None) | (errclass, message)"""
    try:
        kw = dict(opts or {})
        if natypes is not None:
            kw['natypes'] = scalar_form(natypes, ntform)
        if style is not None:
            kw['atom_style'] = style
        if units is not None:
            kw['units'] = units
        if potential is not None:
            kw['potential'] = build_potential(potential)
        out = None if fname is None else 'stream' if fname == '<stream>' else 'path:' + fname
        text, info = _dump_via(lambda big=False: build_system(bigger_desc(d) if big else d), 'atom_data', out, pre,
                               float_format=fmt_py(ff), **kw)
        if kw.get('return_info') is False:
            if info is not None:
                return ('err:value', f'dump returned {info!r} although return_info=False')
            return ('ok', text, None)
        if out is None:
            info = info[0]
        if not isinstance(info, str):
            return ('err:value', f'dump returned {info!r} instead of the command snippet')
        return ('ok', text, info)
    except ChannelMismatch as e:
        return ('err:channel', str(e), e.clause)
    except Exception as e:  # noqa
        return (err_class(e), f'{type(e).__name__}: {e}')


# dump-file columns of the standard per-atom properties (dump manual page): property -> (column names, unit kind)
DUMP_STD = {'atom_id': (['id'], None), 'atype': (['type'], None), 'm_id': (['mol'], None), 'mass': (['mass'], 'mass'),
            'pos': (['x', 'y', 'z'], 'length'), 'spos': (['xs', 'ys', 'zs'], 'scaled'), 'upos': (['xu', 'yu', 'zu'], 'length'),
            'supos': (['xsu', 'ysu', 'zsu'], 'scaled'), 'velocity': (['vx', 'vy', 'vz'], 'velocity'),
            'force': (['fx', 'fy', 'fz'], 'force'), 'charge': (['q'], 'charge'), 'mu': (['mux', 'muy', 'muz'], 'dipole'),
            'mu_mag': (['mu'], 'dipole'), 'radius': (['radius'], 'length'), 'diameter': (['diameter'], 'length'),
            'ang_velocity': (['omegax', 'omegay', 'omegaz'], 'ang-vel'),
            'ang_momentum': (['angmomx', 'angmomy', 'angmomz'], 'ang-mom'), 'torque': (['tqx', 'tqy', 'tqz'], 'force*length')}


def explicit_dump_args(d, units, prop_names, how, posunit=None, posnames=None):
    """the conversion parameters the writer derives by itself for `prop_names`, spelled out by the caller: as a
    prop_info list (`how` = 'prop_info') or as parallel prop_name/table_name/shape/unit lists ('lists').  The file
    must be the same as with the defaults.  `posunit` = 'scaled': the caller asks for `pos` ITSELF box-relative (the
    documented unit value 'scaled' on the pos entry; what atom_dump.load hands back for a file with scaled columns),
    under the column names `posnames` (x y z, or the xs ys zs a LAMMPS reader expects for such numbers)."""
    from atomman.lammps import style
    lu = style.unit(units)
    info = []
    for nm in prop_names:
        if nm in DUMP_STD:
            names, kind = DUMP_STD[nm]
            shape = () if len(names) == 1 else (3,)
            unit = None if kind is None else 'scaled' if kind == 'scaled' else \
                (None if any(lu[p] is None for p in kind.split('*')) else '*'.join(lu[p] for p in kind.split('*')))
            if nm == 'pos' and posunit:
                unit = posunit
            if nm == 'pos' and posnames:
                names = list(posnames)
        else:
            shape = tuple(d['props'][nm][1])
            names = [nm + ''.join(f'[{i}]' for i in idx) for idx in _indices(shape)]
            unit = None
        info.append({'prop_name': nm, 'table_name': names[0] if len(names) == 1 and how == 'prop_info' else names,
                     'shape': shape, 'unit': unit})
    if how == 'prop_info':
        return {'prop_info': info}
    return {'prop_name': [p['prop_name'] for p in info], 'table_name': [p['table_name'] for p in info],
            'shape': [p['shape'] for p in info], 'unit': [p['unit'] for p in info]}


def _indices(shape):
    if not shape:
        return [()]
    return [(i,) + r for i in range(shape[0]) for r in _indices(shape[1:])]


# how a system may hold its time step: System has no such attribute of its own (absent -> the writer says 0), a
# script sets it from a dump file (int), from numpy bookkeeping (integers of every width, signed or not, 0-d arrays)
# or as elapsed time / step length (a whole number held as a float: 50.0 / 0.002); None = "not known" -> 0
TS_FORMS = ['int', 'int', 'float', 'np.float64', 'np.float32', 'np.int64', 'np.int32', 'np.int16', 'np.int8', 'np.uint8',
            'np.uint16', 'np.uint32', 'np.uint64', '0d-int', '0d-float', '0d-int32', 'np.longdouble']


def ts_forms_for(ts):
    """the forms that hold the whole number `ts` exactly."""
    np = _np()
    ok = []
    for f in TS_FORMS:
        if f in ('int', '0d-int', 'np.int64'):
            fits = ts < 2 ** 63
        elif f in ('float', 'np.float64', '0d-float', 'np.longdouble'):
            fits = ts < 2 ** 53
        elif f == 'np.float32':
            fits = ts < 2 ** 24 or float(np.float32(ts)) == ts
        else:
            info = np.iinfo(getattr(np, f.split('.')[-1].replace('0d-', '')))
            fits = info.min <= ts <= info.max
        if fits:
            ok.append(f)
    return ok


def ts_value(ts, form):
    np = _np()
    if form == 'int':
        return int(ts)
    if form == 'float':
        return float(ts)
    if form == '0d-int':
        return np.array(int(ts))
    if form == '0d-float':
        return np.array(float(ts))
    if form == '0d-int32':
        return np.array(int(ts), dtype=np.int32)
    return getattr(np, form.split('.', 1)[1])(ts)


def real_dump(d, units, ff, prop_names=None, timestep=0, out=None, explicit=None, pre=False, tsform=None, posunit=None,
              posnames=None):
    def build(big=False):
        s = build_system(bigger_desc(d) if big else d)
        if tsform == 'none':
            s.timestep = None
        elif tsform == 'absent':
            pass
        elif tsform is not None:
            s.timestep = ts_value(max(timestep - (1 if big else 0), 0), tsform)
        elif timestep:
            s.timestep = timestep - (1 if big else 0)      # what a system loaded from a dump file carries
        return s
    try:
        kw = {}
        if prop_names is not None and (explicit or posunit or posnames):
            kw.update(explicit_dump_args(d, units, prop_names, explicit or 'lists', posunit, posnames))
        elif prop_names is not None:
            kw['prop_name'] = list(prop_names)
        return ('ok', _dump_via(build, 'atom_dump', out, pre, lammps_units=units, float_format=fmt_py(ff), **kw)[0])
    except ChannelMismatch as e:
        return ('err:channel', str(e), e.clause)
    except Exception as e:  # noqa
        return (err_class(e), f'{type(e).__name__}: {e}')


def real_poscar(d, ff, coordstyle, scale, header, symbols, out=None, pre=False, sform=None, symform=None):
    try:
        kw = {}
        if symbols is not None:
            kw['symbols'] = tuple(symbols) if symform == 'tuple' and not isinstance(symbols, str) else symbols
        return ('ok', _dump_via(lambda big=False: build_system(bigger_desc(d) if big else d), 'poscar', out, pre,
                                header=header, coordstyle=coordstyle, box_scale=scalar_form(scale, sform),
                                float_format=fmt_py(ff), **kw)[0])
    except ChannelMismatch as e:
        return ('err:channel', str(e), e.clause)
    except Exception as e:  # noqa
        return (err_class(e), f'{type(e).__name__}: {e}')


def flag_form(b, form):
    """a flag given as a bool, as 0 / 1 or as a numpy bool (the result of a comparison of numpy values)."""
    if form == 'int':
        return int(bool(b))
    if form == 'np':
        return _np().bool_(b)
    return bool(b)


def scalar_form(v, form):
    """a whole or dyadic number given as python int / float or a numpy scalar."""
    np = _np()
    if form in (None, 'float'):
        return v
    if form == 'int':
        return int(v)
    return getattr(np, form)(v)


def real_table(d, ff, cols, units, header, out=None, pre=False, defaults=False, hform=None):
    """cols: list of (prop, unitspec, names) ; unitspec 'none' | 'scaled' | kind.  `defaults`: the writer is called
    without any column selection (all per-atom properties under their default names, no conversion)."""
    from atomman.lammps import style
    lu = style.unit(units)
    try:
        kw = {}
        if not defaults:
            unit = []
            shapes = [() if prop in ('a_id', 'atype') else (3,) if prop == 'pos' else tuple(d['props'][prop][1])
                      for prop, _us, _names in cols]
            if any(len(sh) >= 2 for sh in shapes):
                kw['shape'] = shapes           # the shape of a tensor cannot be told from the number of its columns
            for prop, us, names in cols:
                if us == 'none':
                    unit.append(None)
                elif us == 'scaled':
                    unit.append('scaled')
                else:
                    unit.append('*'.join(lu[p] for p in us.split('*')))
            kw.update({'prop_name': [c[0] for c in cols], 'table_name': [c[2] for c in cols], 'unit': unit})
        return ('ok', _dump_via(lambda big=False: build_system(bigger_desc(d) if big else d), 'table', out, pre,
                                header=flag_form(header, hform), float_format=fmt_py(ff), **kw)[0])
    except ChannelMismatch as e:
        return ('err:channel', str(e), e.clause)
    except Exception as e:  # noqa
        return (err_class(e), f'{type(e).__name__}: {e}')


# ---- text comparison --------------------------------------------------------------------

EPS = Fraction(1, 2 ** 52)
_NUM = re.compile(r'^[+-]?(\d+\.?\d*|\.\d+)([eE][+-]?\d+)?$')
_NEGZERO = re.compile(r'(?<![\w.])-(0(?:\.0*)?(?:e[+-]\d+)?)(?![\w.])')


def canon_zero(text):
    """`-0.000` -> `0.000` (the sign of a floating zero does not exist in Q)."""
    return _NEGZERO.sub(lambda m: m.group(1) if float(m.group(1)) == 0 else m.group(0), text)


def text_diff(a, b, ff, M):
    """None if the texts agree: same line/token structure, non-numeric tokens identical, numeric tokens within one
    unit of the last printed place plus the float error bound 256·eps·max(|value|, M) (M = magnitude of the
    positions/box the value may have been computed from by cancellation; M None = exact regime, no slack)."""
    if a == b:
        return None
    la, lb = a.split('\n'), b.split('\n')
    if len(la) != len(lb):
        return f'{len(la)} lines vs {len(lb)}'
    fam, n = fmt_family(ff)
    for i, (x, y) in enumerate(zip(la, lb)):
        if x == y:
            continue
        tx, ty = x.split(' '), y.split(' ')
        if len(tx) != len(ty):
            return f'line {i + 1}: {x!r} vs {y!r}'
        for p, q in zip(tx, ty):
            if p == q:
                continue
            if not (_NUM.match(p) and _NUM.match(q)) or ('.' in p) != ('.' in q) and n > 0:
                return f'line {i + 1}: token {p!r} vs {q!r}'
            fp, fq = Fraction(p), Fraction(q)
            if fam == 'f':
                quantum = Fraction(1, 10 ** n)
            else:
                mag = max(abs(fp), abs(fq))
                e = math.floor(math.log10(float(mag))) if mag else 0
                quantum = Fraction(10) ** (e - n) * 2
            allowed = Fraction(0) if M is None else quantum + 256 * EPS * max(abs(fp), abs(fq), M)
            if abs(fp - fq) > allowed:
                return f'line {i + 1}: number {p} vs {q} (allowed {float(allowed):.3g})'
    return None


def magnitude(d, lf=None):
    np = _np()
    m = max(float(np.abs(np.asarray(d['pos'], dtype=float)).max()), float(np.abs(np.asarray(d['vects'])).max()),
            float(np.abs(np.asarray(d['origin'])).max()), 1.0)
    return m / float(lf) if lf else m


# ----------------------------------------------------------------------------------------
# the oracle: independent parsers in Python (LAMMPS read_data / dump manual pages, VASP POSCAR page) and the
# clauses of the property evaluated on the real output with exact rationals
# ----------------------------------------------------------------------------------------
_ID = ('atom-ID', None, 'a_id', 0)
_TY = ('atom-type', None, 'atype', 0)
_MOL = ('molecule-ID', None, 'm_id', 0)
_XYZ = [('x', 'length', 'pos', 0), ('y', 'length', 'pos', 1), ('z', 'length', 'pos', 2)]
_Q = ('q', 'charge', 'charge', 0)
_RHO = ('density', 'density', 'density', 0)
LAYOUT = {
    'angle': [_ID, _MOL, _TY] + _XYZ, 'atomic': [_ID, _TY] + _XYZ,
    'body': [_ID, _TY, ('bodyflag', None, 'bflag', 0), ('mass', 'mass', 'mass', 0)] + _XYZ,
    'bond': [_ID, _MOL, _TY] + _XYZ, 'charge': [_ID, _TY, _Q] + _XYZ,
    'dipole': [_ID, _TY, _Q] + _XYZ + [('mux', 'dipole', 'mu', 0), ('muy', 'dipole', 'mu', 1), ('muz', 'dipole', 'mu', 2)],
    'electron': [_ID, _TY, _Q, ('spin', None, 'espin', 0), ('eradius', 'length', 'eradius', 0)] + _XYZ,
    'ellipsoid': [_ID, _TY, ('ellipsoidflag', None, 'eflag', 0), _RHO] + _XYZ,
    'full': [_ID, _MOL, _TY, _Q] + _XYZ,
    'line': [_ID, _MOL, _TY, ('lineflag', None, 'lflag', 0), _RHO] + _XYZ,
    'meso': [_ID, _TY, ('rho', None, 'rho', 0), ('e', None, 'e', 0), ('cv', None, 'cv', 0)] + _XYZ,
    'molecular': [_ID, _MOL, _TY] + _XYZ,
    'peri': [_ID, _TY, ('volume', 'volume', 'volume', 0), _RHO] + _XYZ,
    'smd': [_ID, _TY, _MOL, ('volume', 'volume', 'volume', 0), ('mass', 'mass', 'mass', 0),
            ('kernel-radius', 'length', 'kradius', 0), ('contact-radius', 'length', 'cradius', 0)] + _XYZ,
    'sphere': [_ID, _TY, ('diameter', 'length', 'diameter', 0), _RHO] + _XYZ,
    'template': [_ID, _MOL, ('template-index', None, 'm_template', 0), ('template-atom', None, 'a_template', 0), _TY] + _XYZ,
    'tri': [_ID, _MOL, _TY, ('triangleflag', None, 'tflag', 0), _RHO] + _XYZ,
    'wavepacket': [_ID, _TY, _Q, ('spin', None, 'espin', 0), ('eradius', 'length', 'eradius', 0), ('etag', None, 'e_id', 0),
                   ('cs_re', None, 'cs_re', 0), ('cs_im', None, 'cs_im', 0)] + _XYZ,
}
_V = [('vx', 'velocity', 'velocity', 0), ('vy', 'velocity', 'velocity', 1), ('vz', 'velocity', 'velocity', 2)]
VEL_LAYOUT = {s: [_ID] + _V for s in LAYOUT}
VEL_LAYOUT['electron'] = [_ID] + _V + [('ervel', 'velocity', 'eradial_velocity', 0)]
VEL_LAYOUT['ellipsoid'] = [_ID] + _V + [('l' + c, 'ang-mom', 'ang_momentum', i) for i, c in enumerate('xyz')]
VEL_LAYOUT['sphere'] = [_ID] + _V + [('w' + c, 'ang-vel', 'ang_velocity', i) for i, c in enumerate('xyz')]
INT_FIELDS = {'atom-ID', 'atom-type', 'molecule-ID', 'bodyflag', 'ellipsoidflag', 'lineflag', 'triangleflag',
              'template-index', 'template-atom', 'spin', 'etag'}


def layout_of(table, style):
    w = style.split()
    if w[0] != 'hybrid':
        return table[w[0]]
    out = list(table['atomic'])
    for sub in w[1:]:
        for f in table[sub]:
            if all(f[0] != g[0] for g in out):
                out.append(f)
    return out


# dump custom attributes (dump manual page): column -> (unit kind | 'scaled' | None, atomman property, component)
DUMPCOLS = {'id': (None, 'atom_id', 0), 'type': (None, 'atype', 0), 'mol': (None, 'm_id', 0), 'mass': ('mass', 'mass', 0),
            'q': ('charge', 'charge', 0), 'radius': ('length', 'radius', 0), 'diameter': ('length', 'diameter', 0),
            'mu': ('dipole', 'mu_mag', 0)}
for _i, _c in enumerate('xyz'):
    DUMPCOLS[_c] = ('length', 'pos', _i)
    DUMPCOLS[_c + 'u'] = ('length', 'pos', _i)
    DUMPCOLS[_c + 's'] = ('scaled', 'pos', _i)
    DUMPCOLS[_c + 'su'] = ('scaled', 'pos', _i)
    DUMPCOLS['i' + _c] = (None, 'boximage', _i)
    DUMPCOLS['v' + _c] = ('velocity', 'velocity', _i)
    DUMPCOLS['f' + _c] = ('force', 'force', _i)
    DUMPCOLS['mu' + _c] = ('dipole', 'mu', _i)
    DUMPCOLS['omega' + _c] = ('ang-vel', 'ang_velocity', _i)
    DUMPCOLS['angmom' + _c] = ('ang-mom', 'ang_momentum', _i)
    DUMPCOLS['tq' + _c] = ('force*length', 'torque', _i)

# LAMMPS `units` manual page, every style, every quantity a per-atom column can carry, written as unit expressions
# over numericalunits' names and plain numbers (evaluated by `nu_value`, never by atomman).  Quantities the page does
# not list for a style (electron: density, torque) are left out: the oracle calls them undefined.
#   cgs: charge in statcoulombs; 1 C = 10 c statC with c = 299792458 (the number of m/s, exact by the SI definition),
#        dipole in statcoulomb cm.   electron: dipole in Debye = 1e-18 statC cm = 1e-21/c C m; velocity in Bohr per
#        atomic time unit, taken as hbar/Hartree (the page's bracketed "1.03275e-15 seconds" is sqrt(amu Bohr^2/Hartree):
#        candidate `electron-velocity-atu` in docs/C07.md, not checked).
ORACLE_UNITS = {
    'lj': {},
    'real': {'mass': 'g/mol', 'length': 'angstrom', 'time': 'fs', 'energy': 'kcal/mol', 'velocity': 'angstrom/fs',
             'force': 'kcal/(mol*angstrom)', 'torque': 'kcal/mol', 'charge': 'e', 'dipole': 'e*angstrom',
             'density': 'g/cm^3'},
    'metal': {'mass': 'g/mol', 'length': 'angstrom', 'time': 'ps', 'energy': 'eV', 'velocity': 'angstrom/ps',
              'force': 'eV/angstrom', 'torque': 'eV', 'charge': 'e', 'dipole': 'e*angstrom', 'density': 'g/cm^3'},
    'si': {'mass': 'kg', 'length': 'm', 'time': 's', 'energy': 'J', 'velocity': 'm/s', 'force': 'N', 'torque': 'N*m',
           'charge': 'C', 'dipole': 'C*m', 'density': 'kg/m^3'},
    'cgs': {'mass': 'g', 'length': 'cm', 'time': 's', 'energy': 'erg', 'velocity': 'cm/s', 'force': 'dyn',
            'torque': 'dyn*cm', 'charge': 'C/2997924580', 'dipole': 'C*cm/2997924580', 'density': 'g/cm^3'},
    'electron': {'mass': 'amu', 'length': 'aBohr', 'time': 'fs', 'energy': 'Hartree', 'velocity': 'aBohr*Hartree/hbar',
                 'force': 'Hartree/aBohr', 'charge': 'e', 'dipole': '1e-21*C*m/299792458'},
    'micro': {'mass': 'pg', 'length': 'um', 'time': 'us', 'energy': 'pg*um^2/us^2', 'velocity': 'um/us',
              'force': 'pg*um/us^2', 'torque': 'pg*um^2/us^2', 'charge': '1e-12*C', 'dipole': '1e-12*C*um',
              'density': 'pg/um^3'},
    'nano': {'mass': '1e-18*g', 'length': 'nm', 'time': 'ns', 'energy': '1e-18*g*nm^2/ns^2', 'velocity': 'nm/ns',
             'force': '1e-18*g*nm/ns^2', 'torque': '1e-18*g*nm^2/ns^2', 'charge': 'e', 'dipole': 'e*nm',
             'density': '1e-18*g/nm^3'},
}
_ofac_cache = {}


def oracle_factor(units, kind):
    """Fraction | None (no conversion: lj) | 'undefined' (LAMMPS defines no such unit / not hand-encoded).
    The value of the LAMMPS unit in the current working units, from the hand-encoded `units` page and
    numericalunits' constants (`nu_value`), independent of atomman.unitconvert and atomman.lammps.style."""
    if kind is None:
        return None
    if units == 'lj':
        return None
    key = (_wu_state['key'], units, kind)
    if key in _ofac_cache:
        return _ofac_cache[key]
    tab = ORACLE_UNITS[units]

    def base(k):
        if k not in tab:
            raise KeyError(k)
        return nu_value(tab[k])
    try:
        if kind == 'ang-mom':
            r = base('mass') * base('velocity') * base('length')
        elif kind == 'ang-vel':
            r = 1 / base('time')
        elif kind == 'volume':
            r = base('length') ** 3
        elif kind == 'force*length':
            r = base('force') * base('length')
        else:
            r = base(kind)
    except KeyError:
        r = 'undefined'
    _ofac_cache[key] = r
    return r


def inv3(V):
    (a, b, c), (d, e, f), (g, h, i) = V
    det = a * (e * i - f * h) - b * (d * i - f * g) + c * (d * h - e * g)
    if det == 0:
        raise ZeroDivisionError
    adj = [[e * i - f * h, c * h - b * i, b * f - c * e],
           [f * g - d * i, a * i - c * g, c * d - a * f],
           [d * h - e * g, b * g - a * h, a * e - b * d]]
    return [[x / det for x in r] for r in adj]


_inv_memo = {}


def rel_of(p, V, O):
    """relative coordinates s with p = s·V + O."""
    key = id(V)
    hit = _inv_memo.get(key)
    if hit is None or hit[0] is not V or hit[1] != V:
        if len(_inv_memo) > 64:
            _inv_memo.clear()
        hit = _inv_memo[key] = (V, [list(r) for r in V], inv3(V))
    Vi = hit[2]
    dlt = [p[j] - O[j] for j in range(3)]
    return [sum(dlt[j] * Vi[j][i] for j in range(3)) for i in range(3)]


def cart_of(s, V, O):
    return [sum(s[i] * V[i][j] for i in range(3)) + O[j] for j in range(3)]


class _FrRows:
    """the positions as exact rationals, converted row by row when they are asked for (a system of 140 000 atoms is
    compared on a sample of its rows)."""

    def __init__(self, rows):
        self.rows = rows
        self.memo = {}

    def __len__(self):
        return len(self.rows)

    def __getitem__(self, k):
        r = self.memo.get(k)
        if r is None:
            r = self.memo[k] = [F(v) for v in self.rows[k]]
        return r

    def __iter__(self):
        return (self[k] for k in range(len(self.rows)))


def fr_sys(d):
    V = [[F(v) for v in r] for r in d['vects']]
    O = [F(v) for v in d['origin']]
    P = [[F(v) for v in p] for p in d['pos']] if len(d['pos']) <= 600 else _FrRows(d['pos'])
    return V, O, P


def is_lammps_norm(V):
    return V[0][1] == 0 and V[0][2] == 0 and V[1][2] == 0 and V[0][0] > 0 and V[1][1] > 0 and V[2][2] > 0


def near_discontinuity(d, margin=Fraction(1, 10 ** 8)):
    """does the exact arithmetic place an atom within `margin` of a wrap decision (periodic face / the
    `min <= 0`, `max >= 1` tests)? those cases are exempt from float-vs-exact comparison."""
    V, O, P = fr_sys(d)
    S = [rel_of(p, V, O) for p in P]
    # on the dyadic grid an atom exactly on a face is decided exactly by the float arithmetic too; elsewhere (generic
    # doubles, a grid system scaled into other working units) "exactly on the face" in Q is as fragile as "almost"
    onface = d.get('regime') != 'grid'
    for i in range(3):
        col = [s[i] for s in S]
        if d['pbc'][i]:
            if any(abs(x - round(x)) < margin and (onface or x != round(x)) for x in col):
                return True
        else:
            lo, hi = abs(min(col)), abs(max(col) - 1)
            if (lo < margin and (onface or lo > 0)) or (hi < margin and (onface or hi > 0)):
                return True
    return False


def exp10(v):
    """floor(log10(v)) of a positive rational, exactly (denormals and 1e300 included)."""
    v = Fraction(v)
    e = len(str(v.numerator)) - len(str(v.denominator))
    while Fraction(10) ** e > v:
        e -= 1
    while Fraction(10) ** (e + 1) <= v:
        e += 1
    return e


def quantum_of(ff, v):
    fam, n = fmt_family(ff)
    if fam == 'f':
        return Fraction(1, 10 ** n)
    if v == 0:
        return Fraction(0)
    return Fraction(10) ** (exp10(abs(v)) - n) * 2


class Checker:
    """collects the first few failed clauses of one written file."""

    def __init__(self, ff, M):
        self.ff = ff
        self.M = Fraction(M)
        self.fails = []

    def tol(self, v, k=1):
        # k == 1: a number compared directly with what was printed; k > 1: a quantity derived from several printed
        # numbers (for %e their quantum is relative to the largest magnitude involved)
        base = v if k == 1 else max(abs(v), self.M)
        return k * quantum_of(self.ff, base) + 256 * EPS * (self.M + abs(v))

    def num(self, what, got, want, k=1):
        if abs(got - want) > self.tol(want, k):
            self.fail(what, f'{what}: file says {float(got)!r}, the system has {float(want)!r} '
                            f'(allowed difference {float(self.tol(want, k)):.3g})')

    def own(self, what, got, want):
        """a stored value written as it is or divided by a unit: no cancellation against the size of the system, so
        the printed precision of the number itself (and one division's rounding) is all that may differ — a value of
        1e-300 or a denormal must not come out as 0 under a %e format."""
        tol = quantum_of(self.ff, want) + 64 * EPS * abs(want)
        if abs(got - want) > tol:
            self.fail(what, f'{what}: file says {float(got)!r}, the system has {float(want)!r} '
                            f'(allowed difference {float(tol):.3g})')

    def fail(self, key, msg):
        if len(self.fails) < 4:
            self.fails.append((key.split('[')[0], msg))


_INT = re.compile(r'^[+-]?\d+$')
_FLT = re.compile(r'^[+-]?(\d+\.?\d*|\.\d+)([eE][+-]?\d+)?$')


def p_int(t):
    if not _INT.match(t):
        raise ValueError(f'{t!r} is not an integer')
    return int(t)


def p_num(t):
    if not _FLT.match(t):
        raise ValueError(f'{t!r} is not a number')
    return Fraction(t)


_NONFINITE = re.compile(r'^[+-]?(nan|inf|infinity)$', re.I)


def special_ok(t, want):
    """`want` is nan / inf / -inf: the word must be the one C's strtod (LAMMPS, numpy, pandas) reads back as that."""
    if not _NONFINITE.match(t):
        return False
    if want != want:
        return 'nan' in t.lower()
    return 'inf' in t.lower() and (t[0] == '-') == (want < 0)


def raw_value(d, prop, comp, k):
    """the stored float itself (may be nan / inf), None for the built-in columns."""
    if prop in d['props']:
        v = d['props'][prop][2][k][comp]
        return v if isinstance(v, float) else None
    return None


_BRACKETS = re.compile(r'^([A-Za-z_]\w*?)((?:\[\d+\])*)$')


def extra_column(d, name):
    """a column that is not a LAMMPS dump attribute: `prop[i][j]...` names component (i, j, ...) of the per-atom
    property `prop` (a bare `prop` a scalar one). -> (prop, flat C-order component) | None"""
    m = _BRACKETS.match(name)
    if not m or m.group(1) not in d['props']:
        return None
    prop = m.group(1)
    shape = tuple(d['props'][prop][1])
    idx = tuple(int(x) for x in re.findall(r'\[(\d+)\]', m.group(2)))
    if len(idx) != len(shape) or any(i >= n for i, n in zip(idx, shape)):
        return None
    flat = 0
    for i, n in zip(idx, shape):
        flat = flat * n + i
    return prop, flat


def sample_rows(n):
    """which rows of a file with n atoms are read and compared number by number: all of them up to 600 atoms; for a
    larger system the first and last three, every row within two of a power of two or of a multiple of 65536 / 4096 /
    1000 (first and last rows of blocks of any such size), and 200 rows drawn from a generator seeded with n.  Counts,
    words per line and the ids are always checked on every row."""
    if n <= 600:
        return None
    rows = set(range(3)) | set(range(n - 3, n))
    k = 1
    while (1 << k) <= n + 2:
        rows |= set(range((1 << k) - 2, (1 << k) + 3))
        k += 1
    for block in (65536, 4096, 1000, 10000):
        for m in range(block, n + 3, block):
            if block >= 4096 or m <= 20 * block:
                rows |= set(range(m - 2, m + 3))
    r = random.Random(n)
    rows |= {r.randrange(n) for _ in range(200)}
    return sorted(x for x in rows if 0 <= x < n)


def py_parse_data(text, style, rows=None):
    """LAMMPS read_data rules. Raises ValueError on a malformed file.  With `rows` (a sorted list of row numbers)
    only these lines of the Atoms / Velocities sections are converted to numbers; of the others the number of words
    and the id are read."""
    lines = text.split('\n')
    if lines and lines[-1] == '':
        lines.pop()
    lines = lines[1:]                       # title line
    hdr = {}
    i = 0
    while i < len(lines):
        t = lines[i].split('#')[0].split()
        if not t:
            i += 1
            continue
        if len(t) == 2 and t[1] == 'atoms':
            hdr['natoms'] = p_int(t[0])
        elif len(t) == 3 and t[1:] == ['atom', 'types']:
            hdr['ntypes'] = p_int(t[0])
        elif len(t) == 4 and t[2:] in (['xlo', 'xhi'], ['ylo', 'yhi'], ['zlo', 'zhi']):
            hdr[t[2][0]] = (p_num(t[0]), p_num(t[1]))
        elif len(t) == 6 and t[3:] == ['xy', 'xz', 'yz']:
            hdr['tilt'] = tuple(p_num(x) for x in t[:3])
        else:
            break
        i += 1
    for k in ('natoms', 'ntypes', 'x', 'y', 'z'):
        if k not in hdr:
            raise ValueError(f'header lacks {k}')
    n = hdr['natoms']
    sections = {}
    hint = None
    while i < len(lines):
        t = lines[i].split('#')[0].split()
        if not t:
            i += 1
            continue
        name = ' '.join(t)
        if name not in ('Atoms', 'Velocities', 'Masses'):
            raise ValueError(f'unknown section {name!r}')
        if name in sections:
            raise ValueError(f'section {name} twice')
        if name == 'Velocities' and 'Atoms' not in sections:
            raise ValueError('Velocities section before the Atoms section')
        if name == 'Atoms' and '#' in lines[i]:
            hint = lines[i].split('#', 1)[1].strip()
        cnt = hdr['ntypes'] if name == 'Masses' else n
        if i + 1 >= len(lines) or lines[i + 1].split('#')[0].split():
            raise ValueError(f'no blank line after {name}')
        body = [l.split('#')[0].split() for l in lines[i + 2:i + 2 + cnt]]
        if len(body) != cnt or any(not b for b in body):
            raise ValueError(f'section {name} has fewer than {cnt} lines')
        if i + 2 + cnt < len(lines) and lines[i + 2 + cnt].split('#')[0].split():
            raise ValueError(f'section {name} has more than the {cnt} lines the header announces: after line {cnt} comes '
                             f'{lines[i + 2 + cnt][:60]!r} instead of a blank line')
        sections[name] = body
        i += 2 + cnt
    if 'Atoms' not in sections:
        raise ValueError('no Atoms section')
    lay = layout_of(LAYOUT, style)
    rowset = None if rows is None else set(rows)
    atoms = []
    for k, row in enumerate(sections['Atoms']):
        if len(row) not in (len(lay), len(lay) + 3):
            raise ValueError(f'Atoms line has {len(row)} words, atom_style {style} needs {len(lay)} (+3 image flags)')
        if rowset is not None and k not in rowset:
            atoms.append({'id': p_int(row[0])})
            continue
        vals = [Fraction(p_int(t)) if f[0] in INT_FIELDS else p_num(t) for f, t in zip(lay, row)]
        img = [p_int(t) for t in row[len(lay):]] or [0, 0, 0]
        atoms.append({'vals': vals, 'image': img})
    vel = None
    if 'Velocities' in sections:
        vl = layout_of(VEL_LAYOUT, style)
        vel = []
        for k, row in enumerate(sections['Velocities']):
            if len(row) != len(vl):
                raise ValueError(f'Velocities line has {len(row)} words, atom_style {style} needs {len(vl)}')
            if rowset is not None and k not in rowset:
                vel.append([Fraction(p_int(row[0]))])
                continue
            vel.append([Fraction(p_int(row[0]))] + [p_num(t) for t in row[1:]])
    tilt = hdr.get('tilt', (Fraction(0),) * 3)
    return {'natoms': n, 'ntypes': hdr['ntypes'], 'hilo': list(hdr['x'] + hdr['y'] + hdr['z'] + tuple(tilt)),
            'has_tilt': 'tilt' in hdr, 'hint': hint, 'atoms': atoms, 'vel': vel}


def prop_value(d, prop, comp, k):
    """value of property `prop` component `comp` of atom k as a Fraction (pos/atype/a_id included)."""
    if prop in ('a_id',):
        return Fraction(k + 1)
    if prop == 'atom_id':
        if 'atom_id' in d['props']:
            return F(d['props']['atom_id'][2][k][0])
        return Fraction(k + 1)
    if prop == 'atype':
        return Fraction(d['atype'][k])
    if prop == 'pos':
        return F(d['pos'][k][comp])
    if prop not in d['props']:
        raise KeyError(prop)
    return F(d['props'][prop][2][k][comp])


def check_data(d, style, units, ff, natypes, parsed, info=None, fname=None):
    """clauses of the property for a data file; `parsed` is the result of an independent parser."""
    V, O, P = fr_sys(d)
    lf = oracle_factor(units, 'length')
    if lf == 'undefined':
        return []
    lf = lf or Fraction(1)
    # the printed precision of a %e number is relative to that number: the bounds of a cell extended along skewed
    # non-periodic directions can be larger than every coordinate of the system
    ck = Checker(ff, max([Fraction(magnitude(d, lf))] + [abs(x) for x in parsed['hilo']]))
    n = len(P)
    if parsed['natoms'] != n:
        ck.fail('header-atoms', f'header says {parsed["natoms"]} atoms, the system has {n}')
    if len(parsed['atoms']) != parsed['natoms']:
        ck.fail('count', f'header says {parsed["natoms"]} atoms, Atoms section has {len(parsed["atoms"])} lines')
    if parsed['ntypes'] != natypes:
        ck.fail('header-types', f'header says {parsed["ntypes"]} atom types, expected {natypes}')
    if parsed['hint'] is not None and parsed['hint'] != style:
        ck.fail('style-hint', f'Atoms section comment says {parsed["hint"]!r}, atom_style is {style!r}')
    xlo, xhi, ylo, yhi, zlo, zhi, xy, xz, yz = parsed['hilo']
    if not (xlo < xhi and ylo < yhi and zlo < zhi):
        ck.fail('lo<hi', f'bounds are not lo < hi: {[float(v) for v in parsed["hilo"][:6]]}')
        return ck.fails
    W = [[xhi - xlo, Fraction(0), Fraction(0)], [xy, yhi - ylo, Fraction(0)], [xz, yz, zhi - zlo]]
    WO = [xlo, ylo, zlo]
    lay = layout_of(LAYOUT, style)
    ids = []
    # cell: periodic directions are unchanged; non-periodic ones keep their direction
    for i in range(3):
        want = [V[i][j] / lf for j in range(3)]
        if d['pbc'][i]:
            for j in range(3):
                ck.num(f'cell[{i}][{j}]', W[i][j], want[j], 2)
        else:
            cr = [W[i][1] * want[2] - W[i][2] * want[1], W[i][2] * want[0] - W[i][0] * want[2],
                  W[i][0] * want[1] - W[i][1] * want[0]]
            big = max(abs(x) for x in W[i]) * max(abs(x) for x in want)
            if any(abs(c) > ck.tol(big, 4) * max(big, 1) for c in cr) or sum(a * b for a, b in zip(W[i], want)) <= 0:
                ck.fail('cell-direction', f'cell vector {i} {[float(x) for x in W[i]]} is not along the system\'s '
                                          f'{[float(x) for x in want]}')
    if not parsed['has_tilt'] and any(V[i][j] != 0 for i, j in ((1, 0), (2, 0), (2, 1))):
        ck.fail('tilt-line', 'the system is triclinic but the file has no "xy xz yz" line')
    so = rel_of([WO[j] * lf for j in range(3)], V, O)
    # each written origin component is off by at most a few print quanta e; the shift in cell vectors is e·V⁻¹, so
    # component i is bounded by e·Σ_j |V⁻¹[j][i]| (in a strongly sheared cell an error along z shows up along b and a)
    Vinv = inv3([[V[i][j] / lf for j in range(3)] for i in range(3)])
    for i in range(3):
        if d['pbc'][i] and abs(so[i]) > ck.tol(Fraction(1), 4) * sum(abs(Vinv[j][i]) for j in range(3)) + Fraction(1, 10 ** 9):
            ck.fail('origin', f'written origin is shifted along periodic direction {i} by {float(so[i])} cell vectors')
    for k, a in enumerate(parsed['atoms'][:n]):
        if 'vals' not in a:
            ids.append(Fraction(a['id']))         # a row outside the sample of a large system: the id only
            continue
        fv = {f[0]: v for f, v in zip(lay, a['vals'])}
        ids.append(fv['atom-ID'])
        if fv['atom-type'] != d['atype'][k]:
            ck.fail('type', f'atom {k + 1}: type {fv["atom-type"]} in the file, {d["atype"][k]} in the system')
        img = a['image']
        for i in range(3):
            if not d['pbc'][i] and img[i] != 0:
                ck.fail('image-nonperiodic', f'atom {k + 1}: image flag {img[i]} along non-periodic direction {i}')
        p = [fv['x'], fv['y'], fv['z']]
        unw = [p[j] + sum(img[i] * W[i][j] for i in range(3)) for j in range(3)]
        imax = max(1, max(abs(x) for x in img))
        for j in range(3):
            ck.num(f'pos[{k}][{j}]', unw[j], P[k][j] / lf, 2 + 2 * imax)
        lam = rel_of(p, W, WO)
        for i in range(3):
            slack = ck.tol(Fraction(1), 4) / min(W[0][0], W[1][1], W[2][2]) * 4
            if lam[i] < -slack or lam[i] > 1 + slack:
                ck.fail('inside', f'atom {k + 1} lies outside the written bounds: relative coordinate {float(lam[i])!r} '
                                  f'along direction {i}')
        for f, v in zip(lay, a['vals']):
            if f[0] in ('atom-ID', 'atom-type', 'x', 'y', 'z'):
                continue
            fac = oracle_factor(units, f[1])
            if fac == 'undefined':
                continue
            try:
                want = prop_value(d, f[2], f[3], k)
            except KeyError:
                continue
            if f[0] in INT_FIELDS:
                if v != want:
                    ck.fail(f[0], f'{f[0]}[{k}]: file says {int(v)}, the system has {int(want)}')
                continue
            ck.own(f'{f[0]}[{k}]', v, want / fac if fac else want)
    if sorted(ids) != [Fraction(i) for i in range(1, len(ids) + 1)]:
        bad = [int(i) for i in ids][:12]
        if len(ids) > 600:
            cnt = {}
            for i in ids:
                cnt[i] = cnt.get(i, 0) + 1
            twice = sorted(int(i) for i, m in cnt.items() if m > 1)[:6]
            bad = f'{len(ids)} ids, {len(cnt)} distinct, smallest {int(min(ids))}, largest {int(max(ids))}, more than once: {twice}'
        ck.fail('ids', f'atom ids are not 1..N, each once: {bad}')
    has_vel = 'velocity' in d['props']
    if has_vel != (parsed['vel'] is not None):
        ck.fail('velocities-section', f'system has velocities: {has_vel}; file has a Velocities section: {not has_vel}')
    if parsed['vel'] is not None and has_vel:
        vl = layout_of(VEL_LAYOUT, style)
        if sorted(r[0] for r in parsed['vel']) != [Fraction(i) for i in range(1, n + 1)]:
            ck.fail('velocity-ids', 'Velocities ids are not 1..N')
        for r in parsed['vel']:
            k = int(r[0]) - 1
            if not 0 <= k < n or len(r) == 1:
                continue
            for f, v in zip(vl[1:], r[1:]):
                fac = oracle_factor(units, f[1])
                if fac == 'undefined':
                    continue
                try:
                    want = prop_value(d, f[2], f[3], k)
                except KeyError:
                    continue
                ck.own(f'{f[0]}[{k}]', v, want / fac if fac else want)
    if info is not None:
        il = [l.split() for l in info.split('\n')]
        if ['units', units] not in il:
            ck.fail('info-units', f'the command snippet does not say "units {units}": {info!r}')
        if ['atom_style'] + style.split() not in il:
            ck.fail('info-atom_style', f'the command snippet does not say "atom_style {style}": {info!r}')
        bl = [l for l in il if l and l[0] == 'boundary']
        if len(bl) != 1 or len(bl[0]) != 4 or any((b == 'p') != bool(p) for b, p in zip(bl[0][1:], d['pbc'])) \
                or any(b not in ('p', 'm', 's', 'f') for b in bl[0][1:]):
            ck.fail('info-boundary', f'boundary line {bl} does not match pbc {d["pbc"]}')
        rd = [l for l in il if l and l[0] == 'read_data']
        if fname is not None and rd != [['read_data', fname]]:
            ck.fail('info-read_data', f'read_data line {rd} does not name {fname}')
        if fname is None and rd:
            ck.fail('info-read_data', f'read_data line {rd} although no file name was given')
    return ck.fails


def py_parse_dump(text):
    lines = text.split('\n')
    if lines and lines[-1] == '':
        lines.pop()
    L = [l.split() for l in lines]
    if len(L) < 9 or L[0] != ['ITEM:', 'TIMESTEP'] or L[2] != ['ITEM:', 'NUMBER', 'OF', 'ATOMS'] \
            or L[4][:3] != ['ITEM:', 'BOX', 'BOUNDS'] or L[8][:2] != ['ITEM:', 'ATOMS']:
        raise ValueError('ITEM lines missing or out of order')
    ts = p_int(L[1][0])
    n = p_int(L[3][0])
    b = L[4][3:]
    tri = b[:3] == ['xy', 'xz', 'yz']
    if tri:
        b = b[3:]
    if len(b) != 3 or any(len(x) != 2 or any(c not in 'pfsm' for c in x) for x in b):
        raise ValueError(f'boundary flags {b}')
    rows3 = [[p_num(t) for t in L[5 + i]] for i in range(3)]
    if any(len(r) != (3 if tri else 2) for r in rows3):
        raise ValueError('BOX BOUNDS lines have the wrong number of values')
    tilt = [rows3[0][2], rows3[1][2], rows3[2][2]] if tri else [Fraction(0)] * 3
    xy, xz, yz = tilt
    hilo = [rows3[0][0] - min(0, xy, xz, xy + xz), rows3[0][1] - max(0, xy, xz, xy + xz),
            rows3[1][0] - min(0, yz), rows3[1][1] - max(0, yz), rows3[2][0], rows3[2][1], xy, xz, yz]
    cols = L[8][2:]
    body = L[9:9 + n]
    if len(body) != n or len(L) != 9 + n:
        raise ValueError(f'NUMBER OF ATOMS is {n}, the ATOMS item has {len(L) - 9} lines')
    rows = []
    for r in body:
        if len(r) != len(cols):
            raise ValueError('ATOMS line length differs from the column list')
        rows.append(r)
    return {'timestep': ts, 'natoms': n, 'tri': tri, 'boundary': b, 'hilo': hilo, 'cols': cols, 'rows': rows}


def check_dump(d, units, ff, parsed, timestep=0, posscaled=False):
    V, O, P = fr_sys(d)
    lf = oracle_factor(units, 'length')
    if lf == 'undefined':
        return []
    lf = lf or Fraction(1)
    ck = Checker(ff, magnitude(d, lf))
    n = len(P)
    if parsed['timestep'] != timestep:
        ck.fail('timestep', f'TIMESTEP {parsed["timestep"]}, the system is at step {timestep}')
    if parsed['natoms'] != n:
        ck.fail('count', f'NUMBER OF ATOMS {parsed["natoms"]}, the system has {n}')
    h = parsed['hilo']
    want = [O[0], O[0] + V[0][0], O[1], O[1] + V[1][1], O[2], O[2] + V[2][2], V[1][0], V[2][0], V[2][1]]
    names = ['xlo', 'xhi', 'ylo', 'yhi', 'zlo', 'zhi', 'xy', 'xz', 'yz']
    for nm, g, w in zip(names, h, want):
        ck.num('box:' + nm, g, w / lf, 3)
    if not (h[0] < h[1] and h[2] < h[3] and h[4] < h[5]):
        ck.fail('lo<hi', 'bounds are not lo < hi after removing the tilt extents')
    if parsed['tri'] != any(w != 0 for w in want[6:]):
        ck.fail('triclinic-label', f'"xy xz yz" label present: {parsed["tri"]}, system tilts {[float(w) for w in want[6:]]}')
    for b, p in zip(parsed['boundary'], d['pbc']):
        if (b == 'pp') != bool(p):
            ck.fail('boundary', f'boundary flags {parsed["boundary"]} vs pbc {d["pbc"]}')
    W = [[h[1] - h[0], 0, 0], [h[6], h[3] - h[2], 0], [h[7], h[8], h[5] - h[4]]]
    WO = [h[0], h[2], h[4]]
    cols = parsed['cols']
    ids = []
    colmap = []
    for c in cols:
        if posscaled and c in ('x', 'y', 'z'):
            # the caller asked for pos itself in unit 'scaled': these columns hold the box-relative coordinates
            colmap.append(('scaled', 'pos', 'xyz'.index(c)))
        elif c in DUMPCOLS and (DUMPCOLS[c][1] in d['props'] or DUMPCOLS[c][1] in ('atom_id', 'atype', 'pos')):
            colmap.append(DUMPCOLS[c])
        else:
            ex = extra_column(d, c)
            if ex is None:
                ck.fail('column', f'column {c!r} names no per-atom property / component of the system')
            colmap.append((None,) + ex if ex else None)
    if len(set(cols)) != len(cols):
        ck.fail('column', f'column names are not distinct: {cols}')
    rowset = sample_rows(n)
    rowset = None if rowset is None else set(rowset)
    srel = None
    idcol = cols.index('id') if 'id' in cols else None
    for k, row in enumerate(parsed['rows'][:n]):
        if rowset is not None and k not in rowset:
            # a row outside the sample of a large system: the id only
            if idcol is not None:
                if _INT.match(row[idcol]):
                    ids.append(Fraction(int(row[idcol])))
                else:
                    ck.fail('int:id', f'column id must be an integer, the file has {row[idcol]!r}')
            continue
        for c, t, cmap in zip(cols, row, colmap):
            if cmap is None:
                continue
            kind, prop, comp = cmap
            if c in ('id', 'type', 'mol', 'ix', 'iy', 'iz') or (prop in d['props'] and d['props'][prop][0]):
                if not _INT.match(t):
                    ck.fail('int:' + c, f'column {c} must be an integer, the file has {t!r}')
                    continue
                if c == 'id':
                    ids.append(Fraction(int(t)))
                try:
                    if Fraction(int(t)) != prop_value(d, prop, comp, k):       # integers are compared exactly
                        ck.fail(c, f'{c}[{k}]: file says {int(t)}, the system has {int(prop_value(d, prop, comp, k))}')
                except KeyError:
                    pass
                continue
            rv = raw_value(d, prop, comp, k)
            if rv is not None and (rv != rv or rv in (float('inf'), float('-inf'))):
                if not special_ok(t, rv):
                    ck.fail('nonfinite:' + c, f'{c}[{k}]: the system has {rv!r}, the file has {t!r}')
                continue
            v = p_num(t)
            if c == 'id':
                ids.append(v)
            try:
                want = prop_value(d, prop, comp, k)
            except KeyError:
                continue
            if kind == 'scaled':
                # the box-relative coordinate itself (statement: dump_scaled_cells): printed precision of that number
                # plus the rounding of (pos - origin)·V⁻¹, which is relative to |pos|·|V⁻¹|
                if prop == 'pos':
                    if srel is None:
                        vi = inv3(V)
                        srel = Fraction(magnitude(d)) * max(abs(x) for r in vi for x in r)
                    sw = rel_of(P[k], V, O)[comp]
                    tol = quantum_of(ff, sw) + 256 * EPS * (srel + abs(sw))
                    if abs(v - sw) > tol:
                        ck.fail(c, f'{c}[{k}]: file says {float(v)!r}, the box-relative coordinate is {float(sw)!r} '
                                   f'(allowed difference {float(tol):.3g})')
                continue
            fac = oracle_factor(units, kind)
            if fac == 'undefined':
                continue
            ck.own(f'{c}[{k}]', v, want / fac if fac else want)
        for suf in ('s', 'su'):
            names3 = [a + suf for a in 'xyz']
            if all(x in cols for x in names3):
                s = [p_num(row[cols.index(x)]) for x in names3]
                p = cart_of(s, W, WO)
                # each scaled number is off by a print quantum (times the cell vector it multiplies), each entry of the
                # cell rebuilt from the printed bounds by a few quanta (times the scaled number: an atom 32769 cells away)
                kk = 3 + 3 * math.ceil(max(abs(x) for r in W for x in r)) + 4 * math.ceil(sum(abs(x) for x in s))
                for j in range(3):
                    ck.num(f'unscaled {names3[j]}[{k}]', p[j], P[k][j] / lf, kk)
    if 'id' in cols:
        if len(set(ids)) != len(ids):
            cnt = {}
            for i in ids:
                cnt[i] = cnt.get(i, 0) + 1
            ck.fail('ids', f'atom ids are not unique: {len(ids)} ids, {len(cnt)} distinct, more than once: '
                           f'{sorted(int(i) for i, m in cnt.items() if m > 1)[:8]}')
        if 'atom_id' not in d['props'] and sorted(ids) != [Fraction(i) for i in range(1, len(ids) + 1)]:
            ck.fail('ids', f'atom ids are not 1..N: {[int(i) for i in ids][:12]} ... smallest {int(min(ids))}, largest '
                           f'{int(max(ids))}, {len(ids)} rows')
    return ck.fails


def py_parse_poscar(text, rows=None):
    lines = text.split('\n')
    if len(lines) < 8:
        raise ValueError('fewer than 8 lines')
    sc = lines[1].split()
    if len(sc) != 1:
        raise ValueError('scale line')
    scale = p_num(sc[0])
    if scale <= 0:
        raise ValueError('non-positive scale')
    lat = [[p_num(t) * scale for t in lines[2 + i].split()[:3]] for i in range(3)]
    if any(len(r) != 3 for r in lat):
        raise ValueError('lattice line')
    i = 5
    t = lines[i].split()
    symbols = None
    if t and not _INT.match(t[0]):
        symbols = t
        i += 1
        t = lines[i].split()
    counts = [p_int(x) for x in t]
    if not counts or any(c < 0 for c in counts):
        raise ValueError('counts line')
    if symbols is not None and len(symbols) != len(counts):
        raise ValueError(f'the species line names {len(symbols)} species ({" ".join(symbols)}), the line of ions per '
                         f'species has {len(counts)} entries ({" ".join(t)})')
    i += 1
    if lines[i].strip()[:1] in ('S', 's'):
        i += 1
    mode = lines[i].strip()
    cart = mode[:1] in ('C', 'c', 'K', 'k')
    i += 1
    n = sum(counts)
    body = lines[i:i + n]
    if len(body) != n:
        raise ValueError(f'counts sum to {n}, {len(body)} coordinate lines')
    if rows is None:
        raw = [[p_num(x) for x in l.split()[:3]] for l in body]
    else:
        # a large system: every line must hold three numbers, only the sampled ones are converted
        rowset = set(rows)
        raw = []
        for k, l in enumerate(body):
            t = l.split()[:3]
            if k in rowset:
                raw.append([p_num(x) for x in t])
            else:
                if len(t) != 3 or not all(_FLT.match(x) for x in t):
                    raise ValueError(f'coordinate line {k + 1}: {l[:60]!r}')
                raw.append(None)
    if any(r is not None and len(r) != 3 for r in raw):
        raise ValueError('coordinate line')
    return {'scale': scale, 'lattice': lat, 'symbols': symbols, 'counts': counts, 'cart': cart, 'raw': raw}


def check_poscar(d, ff, coordstyle, scale, symbols, parsed):
    V, O, P = fr_sys(d)
    ck = Checker(ff, magnitude(d))
    sc = F(scale)
    # %e prints relative precision: compare relative to the written (unscaled) magnitude
    want_cart = coordstyle[:1] in 'cCkK'
    if parsed['cart'] != want_cart:
        ck.fail('mode', f'coordinate mode line {coordstyle!r} read as cartesian={parsed["cart"]}')
    ck.num('scale', parsed['scale'], sc)

    def scaled_tol(want):
        # a written number w = want/scale times the written scale: both carry their own print quantum
        w = want / sc
        return 2 * (quantum_of(ff, max(abs(w), ck.M / sc) if fmt_family(ff)[0] == 'e' else w) * sc + abs(w) * quantum_of(ff, sc)) \
            + 256 * EPS * (ck.M + abs(want))
    for i in range(3):
        for j in range(3):
            got = parsed['lattice'][i][j]
            if abs(got - V[i][j]) > scaled_tol(V[i][j]):
                ck.fail('lattice', f'lattice[{i}][{j}]: scale x written row gives {float(got)!r}, the system has '
                                   f'{float(V[i][j])!r} (allowed difference {float(scaled_tol(V[i][j])):.3g})')
    ntyp = d['natypes']
    want_counts = [sum(1 for t in d['atype'] if t == a) for a in range(1, ntyp + 1)]
    if parsed['counts'] != want_counts:
        ck.fail('counts', f'per-type counts {parsed["counts"]}, the system has {want_counts}')
    if symbols is not None and parsed['symbols'] != list(symbols):
        ck.fail('symbols', f'symbols line {parsed["symbols"]} vs {list(symbols)}')
    if symbols is None and parsed['symbols'] is not None:
        ck.fail('symbols', f'symbols line {parsed["symbols"]} although the system has no complete set of symbols')
    order = [k for a in range(1, ntyp + 1) for k in range(len(P)) if d['atype'][k] == a]
    if len(parsed['raw']) != len(order):
        ck.fail('count', f'{len(parsed["raw"])} coordinate lines for {len(order)} atoms')
        return ck.fails
    rowset = sample_rows(len(order))
    rowset = None if rowset is None else set(rowset)
    for i, (r, k) in enumerate(zip(parsed['raw'], order)):
        if rowset is not None and i not in rowset:
            continue
        if parsed['cart']:
            for j in range(3):
                got = r[j] * parsed['scale']
                if abs(got - P[k][j]) > scaled_tol(P[k][j]):
                    ck.fail('cartesian', f'cartesian[{k}][{j}]: scale x written coordinate gives {float(got)!r}, the atom '
                                         f'is at {float(P[k][j])!r} (allowed difference {float(scaled_tol(P[k][j])):.3g})')
        else:
            s = rel_of(P[k], V, O)
            for j in range(3):
                ck.num(f'direct[{k}][{j}]', r[j], s[j], 2)
    return ck.fails


# ----------------------------------------------------------------------------------------
# case streams (shared by correspond and search; everything derives from the rng passed in)
# ----------------------------------------------------------------------------------------
ALL_STYLES = sorted(STYLE_PROPS)
HYBRIDS = ['hybrid charge', 'hybrid sphere', 'hybrid charge sphere', 'hybrid molecular charge', 'hybrid dipole sphere',
           'hybrid ellipsoid charge']
# sub-styles that define the SAME unit-bearing column (a hybrid of two of them must still write it once, converted once)
SHARED_GROUPS = {'density': ['sphere', 'ellipsoid', 'line', 'peri', 'tri'], 'mass': ['body', 'smd'],
                 'charge': ['charge', 'dipole', 'full', 'electron', 'wavepacket'], 'volume': ['peri', 'smd'],
                 'eradius': ['electron', 'wavepacket']}
SHARED_HYBRIDS = [f'hybrid {a} {b}' if (i + j) % 2 == 0 else f'hybrid {b} {a}'
                  for g in SHARED_GROUPS.values() for i, a in enumerate(g) for j, b in enumerate(g) if i < j]


def gen_hybrid(rng):
    """a hybrid style of 1-5 sub-styles; more than half of them contain two sub-styles sharing a unit-bearing column."""
    if rng.random() < 0.55:
        grp = rng.choice(list(SHARED_GROUPS.values()))
        subs = rng.sample(grp, 2 if len(grp) == 2 or rng.random() < 0.7 else 3)
        for _ in range(rng.choice([0, 0, 1, 2])):
            x = rng.choice(ALL_STYLES)
            if x not in subs:
                subs.insert(rng.randint(0, len(subs)), x)
    else:
        subs = rng.sample(ALL_STYLES, rng.randint(1, 4))
    return 'hybrid ' + ' '.join(subs)


def gen_channel(rng, name):
    """output channel of System.dump: the returned string (mostly), a file name, an open text stream; two times out
    of three the file / stream exists already and is not empty.  -> (out, pre)"""
    r = rng.random()
    out = 'path:' + name if r < 0.10 else 'stream' if r < 0.17 else None
    return out, (out is not None and rng.random() < 0.67)


def gen_data_case(rng, i, wu_p=0.25, raw=0.12):
    regime = 'grid' if i % 2 == 0 else 'generic'
    r = rng.random()
    if r < 0.40:
        style = 'atomic'
    elif r < 0.70:
        style = rng.choice(ALL_STYLES)
    elif r < 0.75:
        style = rng.choice(HYBRIDS)
    else:
        style = gen_hybrid(rng)
    units = 'metal' if rng.random() < 0.5 else rng.choice(UNIT_STYLES)
    with_vel = rng.random() < 0.4
    lammps = rng.random() > 0.04
    d = gen_desc(rng, regime, needed_props(style, with_vel), lammps=lammps, big_types=0.04)
    ff = pick_format(rng, units, raw)
    natypes = None
    if rng.random() < 0.2:
        natypes = d['natypes'] + rng.randint(1, 2)
    out, pre = gen_channel(rng, 'atom.dat')
    fname = None if out is None else '<stream>' if out == 'stream' else out.split(':', 1)[1]
    if rng.random() < 0.08 and needed_props(style, False):
        # drop a required property: both sides must refuse
        drop = needed_props(style, False)[0][0]
        d['props'].pop(drop, None)
    opts = {}
    if rng.random() < 0.25:
        opts['safecopy'] = True            # the file must be the same whether or not the caller's system is kept unwrapped
    if rng.random() < 0.08:
        opts['return_info'] = False
    if rng.random() < 0.1:
        add_namesake(rng, d)
    pick_int_dtypes(rng, d)
    ntform = rng.choice([None, None, 'int64', 'int32'] + int_dtypes_for(0, natypes)) if natypes is not None else None
    c = {'kind': 'data', 'ntform': ntform, 'd': d, 'style': style, 'units': units, 'ff': ff, 'natypes': natypes, 'fname': fname,
         'opts': opts, 'pre': pre, 'wu': gen_wu(rng, wu_p)}
    if rng.random() < 0.15:
        add_potential(rng, c)
    elif (style == 'atomic' or units == 'metal') and rng.random() < 0.3:
        # arguments left out without a potential: the defaults (metal, atomic) are used
        c['args'] = {'units': None if units == 'metal' else units, 'style': None if style == 'atomic' else style}
    c['d'] = scale_desc(c['d'], c['wu'])
    return c


NAMESAKES = ['q', 'x', 'y', 'z', 'mol', 'id', 'type', 'vx', 'mux', 'density', 'xu', 'radius']


def add_namesake(rng, d):
    """a per-atom property that is NOT written (no atom_style knows it, it is not among the selected columns) but is
    called like a column of the file (q next to charge, x next to pos): it must stay out of the file."""
    name = rng.choice([n for n in NAMESAKES if n not in d['props']] or ['q'])
    if name not in d['props']:
        d['props'][name] = (False, (), [[float(rng.randint(50, 90))] for _ in d['atype']])
    return name


def add_potential(rng, c, force_explicit=False):
    """a potential object is passed along; `units=` / `atom_style=` are each given explicitly (the given one is
    used, whatever the potential says) or left out (the potential's is used).  c['style'], c['units'] stay the
    values that must be USED; c['args'] are the arguments of the call."""
    d = c['d']
    if d['natypes'] > len(POT_SYMBOLS) - 2:
        return
    syms = rng.sample(POT_SYMBOLS, d['natypes'])
    d['symbols'] = syms
    more = [x for x in POT_SYMBOLS if x not in syms]
    pot_syms = list(syms) + (rng.sample(more, rng.randint(1, 2)) if rng.random() < 0.5 else [])
    rng.shuffle(pot_syms)
    give_units = force_explicit or rng.random() < 0.6
    give_style = force_explicit or rng.random() < 0.5
    pot = {'units': rng.choice([u for u in UNIT_STYLES if u != c['units']]) if give_units else c['units'],
           'atom_style': rng.choice([x for x in ('atomic', 'charge', 'full', 'sphere') if x != c['style']]) if give_style
           else c['style'], 'symbols': pot_syms}
    c['potential'] = pot
    c['args'] = {'units': c['units'] if give_units else None, 'style': c['style'] if give_style else None}


DUMP_EXTRA = [('velocity', 0, 3), ('force', 0, 3), ('charge', 0, 1), ('mass', 0, 1), ('m_id', 1, 1), ('radius', 0, 1),
              ('mu', 0, 3), ('ang_velocity', 0, 3), ('ang_momentum', 0, 3), ('torque', 0, 3), ('diameter', 0, 1),
              ('stress', 0, (3, 3)), ('myint', 1, 1), ('myvec', 0, 3), ('mu_mag', 0, 1)]
# per-atom tensors: rank >= 2, not symmetric (independent random components), not square: every column of the file is
# checked against the component its header names
TENSORS = [('defgrad', 0, (3, 3)), ('gmat', 0, (2, 3)), ('hmat', 0, (3, 2)), ('t3', 0, (2, 2, 2)), ('imat', 1, (2, 3)),
           ('row', 0, (1, 3)), ('t4', 0, (3, 1, 2)),
           # two-digit component numbers: v12[10] comes after v12[9], not after v12[1]
           ('v12', 0, (12,)), ('w11', 0, (11, 2))]
SPECIALS = [-0.0, 5e-324, 2.2250738585072014e-308, 1e-300, 1e300, -1e300, 1.7976931348623157e308, float('nan'),
            float('inf'), float('-inf'), 1e-20, 123456789012345.6]


def add_specials(rng, d):
    """an extra float property holding values at the edges of the double range: negative zero, denormals, 1e300,
    nan, inf (a per-atom quantity that is undefined for some atoms is nan; the model has no such numbers: search
    only).  The word for a value that is not finite must be one C's strtod reads back: nan, inf, -inf."""
    n = len(d['atype'])
    shape = rng.choice([(), (), (3,), (2, 2)])
    ncomp = 1
    for x in shape:
        ncomp *= x
    arr = [[rng.choice(SPECIALS) if rng.random() < 0.6 else rng.uniform(-5, 5) for _ in range(ncomp)] for _ in range(n)]
    d['props'] = dict(list(d['props'].items()) + [('edge', (False, shape, arr))])


def zero_flag_finite(d, ff):
    """Python's % pads a non-finite value with zeros under the 0 flag ('%+09.2f' % inf = '+00000inf', C pads with
    blanks): not a combination the property is about; the edge values stay finite there."""
    if ff.startswith('%') and '0' in fmt_parts(ff)[0] and 'edge' in d['props']:
        is_int, shape, arr = d['props']['edge']
        d['props']['edge'] = (is_int, shape, [[v if v == v and abs(v) != float('inf') else 1e300 for v in r] for r in arr])


def gen_dump_case(rng, i, wu_p=0.25, raw=0.12, specials=0.0):
    regime = 'grid' if i % 2 == 0 else 'generic'
    units = 'metal' if rng.random() < 0.5 else rng.choice(UNIT_STYLES)
    props = [p for p in DUMP_EXTRA if rng.random() < 0.18 and not (units == 'lj' and p[0] == 'torque')]
    props += [p for p in TENSORS if rng.random() < 0.12]
    d = gen_desc(rng, regime, props, lammps=rng.random() > 0.04, big_types=0.04)
    n = len(d['atype'])
    if rng.random() < 0.25:
        ids = rng.sample(range(1, 4 * n + 2), n)
        if rng.random() < 0.3:
            # ids beyond 32 bits (LAMMPS tagint may be 64 bits wide)
            off = rng.choice([2 ** 31 - 2, 2 ** 32, 2 ** 40 + 3, 2 ** 53 - 100, 2 ** 53 + 1, 2 ** 62 + 5])
            ids = [off + k for k in ids]
        elif rng.random() < 0.25 and n > 1:
            # distinct ids that agree in their low 8 / 16 / 32 bits (keys packed into a narrower integer collide)
            m = rng.choice([2 ** 8, 2 ** 16, 2 ** 32])
            ids = [ids[0] + j * m for j in range(n)] if rng.random() < 0.5 else [ids[j] + (j % 3) * m for j in range(n)]
        if rng.random() < 0.1 and n > 1:
            ids[0] = ids[1]                       # duplicate ids: both sides refuse
        d['props'] = dict([('atom_id', (True, (), [[v] for v in ids]))] + list(d['props'].items()))
    if rng.random() < specials:
        add_specials(rng, d)
    ff = pick_format(rng, units, raw, g_ok=specials > 0)
    zero_flag_finite(d, ff)
    prop_names = None
    if rng.random() < 0.45:
        # explicit column selection with scaled / unwrapped position variants
        prop_names = ['atom_id', 'atype'] + rng.sample(['pos', 'spos', 'upos', 'supos'], rng.randint(1, 3)) \
            + [p for p in d['props'] if p != 'atom_id' and rng.random() < 0.7]
        if rng.random() < 0.5:
            rng.shuffle(prop_names)               # the columns come in the order they are asked for, id anywhere
        if rng.random() < 0.2:
            add_namesake(rng, d)                  # held by the system, not asked for
    explicit = None
    if prop_names is not None and rng.random() < 0.3:
        explicit = rng.choice(['prop_info', 'lists'])
    out, pre = gen_channel(rng, 'a.dump')
    pick_int_dtypes(rng, d)
    wu = gen_wu(rng, wu_p)
    ts = rng.choice([0, 0, 1, 12, 100, 250000, 25000, 10 ** 9, 2 ** 31, 3 * 10 ** 9, 2 ** 40 + 7, 127, 255, 65535, 2 ** 24 + 2])
    c = {'kind': 'dump', 'd': scale_desc(d, wu), 'units': units, 'ff': ff, 'prop_names': prop_names, 'explicit': explicit,
         'timestep': ts, 'out': out, 'pre': pre, 'wu': wu}
    if rng.random() < 0.6:
        # the numeric type the attribute happens to have; None / no attribute at all: step 0
        c['tsform'] = rng.choice(ts_forms_for(ts)) if rng.random() < 0.85 else rng.choice(['none', 'absent'])
        if c['tsform'] in ('none', 'absent'):
            c['timestep'] = 0
    return c


ELEMENTS = ['Al', 'Cu', 'Fe', 'Ni', 'O', 'U', 'W', 'Zr', 'Ag', 'Au', 'Pt', 'Pd', 'Ti', 'Nb', 'Mo', 'Ta', 'Si', 'Ge']
LIGHT = ['H', 'He', 'Li', 'Be', 'B', 'C', 'N', 'F', 'Ne', 'Na', 'Mg', 'P', 'S', 'Cl', 'Ar', 'K', 'Ca', 'Sc']


def some_symbols(rng, pool, n):
    """n distinct species names: element symbols while they last, then made-up ones (E19, E20, ...)."""
    if n <= len(pool):
        return rng.sample(pool, n)
    out = list(pool) + [f'{pool[0][0]}{k}' for k in range(len(pool) + 1, n + 1)]
    rng.shuffle(out)
    return out


def gen_poscar_case(rng, i, raw=0.12):
    regime = 'grid' if i % 2 == 0 else 'generic'
    d = gen_desc(rng, regime, [], lammps=rng.random() < 0.7, nmax=40 if rng.random() < 0.15 else 10, big_types=0.03,
                 big_types_max=300)
    coordstyle = rng.choice(['direct', 'cartesian', 'Direct', 'Cartesian', 'cart', 'k', 'D'])
    if regime == 'grid':
        scale = rng.choice([1.0, 2.0, 0.5, 4.0, 0.25, 1.0])
    else:
        scale = rng.choice([1.0, rng.uniform(0.3, 6.0), 3.615, 0.1])
    r = rng.random()
    if r < 0.06:
        # the universal scaling factor is a multiplier only when it is positive (a negative value on that line is the
        # cell volume): zero and negative factors must be refused, not written
        scale = rng.choice([-2.5, -1.0, 0.0, -64.0, -0.0, -rng.uniform(0.1, 9.0)])
    elif r < 0.12:
        scale = rng.choice([2.0 ** -20, 2.0 ** 20, 2.0 ** -30, 2.0 ** 12]) if regime == 'grid' else \
            rng.choice([1e-8, 1e7, rng.uniform(1, 9) * 1e-5, rng.uniform(1, 9) * 1e4])        # tiny / huge
    # symbols: passed as a list, as a bare string (one type), or carried by the system (complete -> written,
    # partly None -> no symbols line); optionally more symbols than the largest type in use (unused last types:
    # the counts line must then have as many entries as the symbols line has names)
    symbols = symarg = None
    r = rng.random()
    if r < 0.55:
        src = rng.choice(['arg', 'arg', 'system', 'both'])
        if src != 'arg' and rng.random() < 0.45:
            d['natypes'] += rng.choice([1, 1, 2])      # the system's symbols define more types than the atoms use
        symbols = some_symbols(rng, ELEMENTS, d['natypes'])
        if src in ('arg', 'both'):
            symarg = list(symbols)
            if len(symbols) == 1 and rng.random() < 0.6:
                symarg = symbols[0]
        if src in ('system', 'both'):
            d['symbols'] = list(symbols) if src == 'system' else some_symbols(rng, LIGHT, d['natypes'])
    elif r < 0.65 and d['natypes'] >= 2:
        d['symbols'] = [None if k == rng.randrange(d['natypes']) or rng.random() < 0.3 else 'Al' + 'x' * k
                        for k in range(d['natypes'])]
        if None not in d['symbols']:
            d['symbols'][-1] = None
    header = rng.choice(['', 'test cell', 'x'])
    if rng.random() < 0.04:
        # a comment / mode line is ONE line: a line break inside must be refused, not written
        if rng.random() < 0.6:
            header = rng.choice(['two\nlines', 'cell\n', '\n'])
        else:
            coordstyle = rng.choice(['direct\n', 'cartesian\nx'])
    ff = rng.choice(['e13', 'e13', 'e8', 'e16', 'f13', 'f8', 'e5'])
    if not 1e-2 < abs(scale) < 1e3:
        ff = rng.choice(['e13', 'e8', 'e16'])          # a fixed-point format cannot resolve a factor of 1e-8 (or the rows / 1e7)
    if rng.random() < raw:
        ff = raw_format(rng, ff)
    out, pre = gen_channel(rng, 'POSCAR')
    pick_int_dtypes(rng, d)
    c = {'kind': 'poscar', 'd': d, 'coordstyle': coordstyle, 'scale': scale, 'symbols': symbols, 'symarg': symarg,
         'header': header, 'ff': ff, 'out': out, 'pre': pre}
    # the factor as python int (a whole number), numpy float / integer scalar; the symbols as a tuple
    forms = ['float64'] + (['float32'] if float(_np().float32(scale)) == scale else []) \
        + (['int', 'int64', 'int32', 'uint8'] if scale == int(scale) and 0 < scale < 200 else [])
    if rng.random() < 0.35:
        c['sform'] = rng.choice(forms)
    if isinstance(symarg, list) and rng.random() < 0.3:
        c['symform'] = 'tuple'
    return c


def default_table_cols(d):
    """what table.dump writes when no columns are selected: every per-atom property in the order the system holds
    them, one column per component named prop[i][j]... (C order), no conversion."""
    cols = [('atype', 'none', ['atype']), ('pos', 'none', ['pos[0]', 'pos[1]', 'pos[2]'])]
    for name, (_is_int, shape, _arr) in d['props'].items():
        cols.append((name, 'none', [name + ''.join(f'[{k}]' for k in idx) for idx in _indices(tuple(shape))]))
    return cols


def gen_table_case(rng, i, wu_p=0.25, raw=0.12, specials=0.0):
    regime = 'grid' if i % 2 == 0 else 'generic'
    units = rng.choice(['metal', 'real', 'si', 'nano'])
    props = [p for p in [('velocity', 0, 3), ('charge', 0, 1), ('m_id', 1, 1), ('force', 0, 3)] if rng.random() < 0.5]
    props += [p for p in TENSORS if rng.random() < 0.2]
    d = gen_desc(rng, regime, props, big_types=0.04)
    if rng.random() < specials:
        add_specials(rng, d)
    defaults = rng.random() < 0.25
    cols = [('atype', 'none', ['type'])]
    cols.append(('pos', rng.choice(['length', 'scaled', 'none']), rng.choice([['x', 'y', 'z'], ['r_c', 'r_a', 'r_b'], ['z', 'x', 'y']])))
    kinds = {'velocity': 'velocity', 'charge': 'charge', 'force': 'force'}
    for name, (is_int, shape, _arr) in d['props'].items():
        us = kinds.get(name, 'none') if rng.random() < 0.7 else 'none'
        names = [name + ''.join(f'[{k}]' for k in idx) for idx in _indices(tuple(shape))]
        if 1 < len(names) <= 12 and rng.random() < 0.5:
            names = [f'{name}{w}' for w in rng.sample(['_one', '_two', '_3', 'X', 'b', 'A', 'q7', 'Zz', 'm', '_k', 'e2', 'W'],
                                                         len(names))]    # any order of names
        cols.append((name, us, names))
    if rng.random() < 0.5:
        cols.insert(0, ('a_id', 'none', ['id']))
    if rng.random() < 0.4:
        head, tail = cols[:1], cols[1:]
        rng.shuffle(tail)
        cols = head + tail
    if defaults:
        cols = default_table_cols(d)
    out, pre = gen_channel(rng, 'table.txt')
    pick_int_dtypes(rng, d)
    wu = gen_wu(rng, wu_p)
    ff = pick_format(rng, units, raw, g_ok=specials > 0)
    zero_flag_finite(d, ff)
    return {'kind': 'table', 'd': scale_desc(d, wu), 'units': units, 'ff': ff,
            'cols': cols, 'header': rng.random() < 0.5, 'out': out, 'pre': pre, 'wu': wu, 'defaults': defaults,
            'hform': rng.choice([None, None, 'int', 'np'])}


def dump_props_for_wire(c):
    """property names and shapes in column order, as atom_dump.dump chooses them."""
    d = c['d']
    if c['prop_names'] is not None:
        names = list(c['prop_names'])
    else:
        names = ['atom_id'] + [p for p in (['atype', 'pos'] + list(d['props'])) if p != 'atom_id']
    out = []
    for nm in names:
        if nm in ('atom_id', 'atype'):
            shape = ()
        elif nm in ('pos', 'spos', 'upos', 'supos'):
            shape = (3,)
        else:
            shape = tuple(d['props'][nm][1])
        out.append((nm, shape))
    return out


def step_token(c):
    """the time step as the system of a dump case holds it, for the model (`StepVal`): `-` no attribute, `none`,
    an integer, `r<p/q>` a real number."""
    form, ts = c.get('tsform'), c.get('timestep', 0)
    if form == 'absent' or (form is None and not ts):
        return '-'
    if form == 'none':
        return 'none'
    if form is not None and ('float' in form or form == 'np.longdouble'):
        return 'r' + cm.fr(float(ts))
    return str(int(ts))


def info_fname(c):
    """the file name the command snippet must name: only a str `f` is one (not an open stream)."""
    f = c.get('fname')
    return None if f in (None, '<stream>') else f


def call_args(c):
    """the atom_style / units ARGUMENTS of a data-file call (None = left out, the potential's or the default is used)."""
    a = c.get('args')
    return (a['style'], a['units']) if a else (c['style'], c['units'])


def resolve_line(c):
    """what the model is asked first for a data-file call: which units / atom_style / natypes does the writer use?"""
    sa, ua = call_args(c)
    pot = c.get('potential')
    pt = f"1 {pot['units']} {pot['atom_style'].replace(' ', '+')} {len(c['d']['symbols'])}" if pot else '0'
    return (f"resolve {ua or '-'} {sa.replace(' ', '+') if sa else '-'} {c['natypes'] if c['natypes'] is not None else '-'} "
            f"{pt} {c['d']['natypes']}")


def model_line(c, resolved=None):
    d = c['d']
    ff = fmt_base(c['ff'])
    if c['kind'] == 'data':
        units, style, natypes = resolved if resolved else (c['units'], c['style'], c['natypes'] or d['natypes'])
        dd = dict(d)
        dd['natypes'] = natypes
        return (f"data {ff} {style.replace(' ', '+')} {units} {info_fname(c) or '-'} {enc_sys(dd)} "
                f"{enc_units(unit_factors(units))}")
    if c['kind'] == 'dump':
        pw = dump_props_for_wire(c)
        ps = ' '.join(f'{nm} {len(sh)}' + ''.join(f' {x}' for x in sh) for nm, sh in pw)
        return f"dump {ff} {step_token(c)} {len(pw)} {ps} {enc_sys(d)} {enc_units(unit_factors(c['units']))}"
    if c['kind'] == 'poscar':
        hw = c['header'].split()
        sy = c['symbols']
        return (f"poscar {ff} {c['coordstyle']} {cm.fr(c['scale'])} {len(hw)} {' '.join(hw)} "
                f"{'1' if sy is not None else '0'} {len(sy or [])} {' '.join(sy or [])} {enc_sys(d)}").replace('  ', ' ')
    if c['kind'] == 'table':
        cs = ' '.join(f'{p} {us} {len(nm)} {" ".join(nm)}' for p, us, nm in c['cols'])
        return (f"table {ff} {'1' if c['header'] else '0'} {len(c['cols'])} {cs} {enc_sys(d)} "
                f"{enc_units(unit_factors(c['units']))}")
    raise ValueError(c['kind'])


def one_line_strings(c):
    """POSCAR: comment and mode line are single lines; the writer must refuse a line break inside them."""
    return c['kind'] != 'poscar' or ('\n' not in c['header'] and '\n' not in c['coordstyle'])


def expressible(c):
    """POSCAR: only a positive universal scaling factor is a multiplier."""
    return c['kind'] != 'poscar' or c['scale'] > 0


def real_call(c):
    ensure_wu(c.get('wu'))
    if c['kind'] == 'data':
        sa, ua = call_args(c)
        return real_data(c['d'], sa, ua, c['ff'], c['natypes'], c['fname'], c.get('opts'), c.get('pre', False),
                         c.get('potential'), c.get('ntform'))
    if c['kind'] == 'dump':
        return real_dump(c['d'], c['units'], c['ff'], c['prop_names'], c.get('timestep', 0), c.get('out'),
                         c.get('explicit'), c.get('pre', False), c.get('tsform'), c.get('posunit'), c.get('posnames'))
    if c['kind'] == 'poscar':
        return real_poscar(c['d'], c['ff'], c['coordstyle'], c['scale'], c['header'], c.get('symarg', c['symbols']),
                           c.get('out'), c.get('pre', False), c.get('sform'), c.get('symform'))
    return real_table(c['d'], c['ff'], c['cols'], c['units'], c['header'], c.get('out'), c.get('pre', False),
                      c.get('defaults', False), c.get('hform'))


def case_sample(c):
    d = c['d']
    s = {k: v for k, v in c.items() if k not in ('d',)}
    s.update({'natoms': len(d['atype']), 'pbc': d['pbc'], 'regime': d['regime'], 'vects': d['vects'],
              'origin': d['origin'], 'props': list(d['props'])})
    return s


def case_replay(c):
    d = c['d']
    r = {k: v for k, v in c.items() if k != 'd'}
    if c.get('sized'):
        return r                       # the system is rebuilt from the specification
    r['d'] = {k: (v if k != 'props' else {n: [p[0], list(p[1]), p[2]] for n, p in v.items()}) for k, v in d.items()}
    return r


def case_from_replay(r):
    c = dict(r)
    if c.get('sized') and 'd' not in r:
        c['d'] = sized_desc(c['sized'])
        if c.get('cols') is not None:
            c['cols'] = [tuple(x) for x in c['cols']]
        return c
    d = dict(r['d'])
    d['props'] = {n: (bool(p[0]), tuple(p[1]), p[2]) for n, p in d['props'].items()}
    c['d'] = d
    if c.get('symbols') is not None:
        c['symbols'] = list(c['symbols'])
    if c.get('cols') is not None:
        c['cols'] = [tuple(x) for x in c['cols']]
    return c


def exact_expected(c):
    """is the float arithmetic of the real code exact on this case, so that the texts must be identical?"""
    d = c['d']
    if d['regime'] != 'grid':
        return False
    fac = unit_factors(c.get('units', 'metal')) if c['kind'] != 'poscar' else {}
    if c['kind'] == 'data':
        V, O, P = fr_sys(d)
        if not is_lammps_norm(V):
            return True
        S = [rel_of(p, V, O) for p in P]
        for i in range(3):
            if not d['pbc'][i] and (min(s[i] for s in S) <= 0 or max(s[i] for s in S) >= 1):
                return False                       # the 0.001 margin is not a dyadic number
        used = {f[1] for f in layout_of(LAYOUT, c['style']) if f[1]}
        if 'velocity' in d['props']:
            used |= {f[1] for f in layout_of(VEL_LAYOUT, c['style']) if f[1]}
        return all(fac.get(k, 1) in (None, 1) for k in used)
    if c['kind'] == 'dump':
        used = {'length'}
        for nm, _sh in dump_props_for_wire(c):
            for col, (kind, prop, _c) in DUMPCOLS.items():
                if prop == nm and kind and kind != 'scaled':
                    used.add(kind)
        return all(fac.get(k, 1) in (None, 1) for k in used)
    if c['kind'] == 'table':
        used = {us for _p, us, _n in c['cols'] if us not in ('none', 'scaled')}
        return all(fac.get(k, 1) in (None, 1) for k in used)
    return True


def written_magnitude(c):
    d = c['d']
    if c['kind'] == 'poscar':
        m = Fraction(magnitude(d)) / F(c['scale'])
        if c['coordstyle'][:1] not in 'cCkK':
            # direct mode: box-relative numbers, rounding error relative to |pos|·|V⁻¹| (an atom 100 000 cells away)
            try:
                vi = inv3([[F(v) for v in r] for r in d['vects']])
                m = max(m, Fraction(magnitude(d)) * max(abs(x) for r in vi for x in r))
            except ZeroDivisionError:
                pass
        return m
    f = unit_factors(c['units']).get('length')
    m = Fraction(magnitude(d, f if f else None))
    scaled = (c['kind'] == 'table' and any(us == 'scaled' for _p, us, _n in c['cols'])) or \
        (c['kind'] == 'dump' and any(nm in ('spos', 'supos') for nm, _sh in dump_props_for_wire(c)))
    if scaled:
        # box-relative columns: the rounding error of (pos - origin)·V⁻¹ is relative to |pos|·|V⁻¹|, a pure number
        try:
            vi = inv3([[F(v) for v in r] for r in d['vects']])
            m = max(m, Fraction(magnitude(d)) * max(abs(x) for r in vi for x in r))
        except ZeroDivisionError:
            pass
    return m


# ----------------------------------------------------------------------------------------
# correspondence
# ----------------------------------------------------------------------------------------

def correspond_fmt(ctx, rng, N):
    import struct
    vals = [0.0, 0.5, 1.5, 2.5, -0.5, 0.125, 1e22, 1e-20, -1e-20, 0.1, 2.675, 9.5, 99.5, 0.95, 0.995, 9.9999999999999995,
            5e-324, 1.7976931348623157e308, 0.00000000000005, 1e15 + 0.5]
    for _ in range(N):
        k = rng.random()
        if k < .3:
            vals.append(rng.uniform(-100, 100))
        elif k < .55:
            vals.append(rng.randint(-4000, 4000) / (1 << rng.randint(0, 14)))     # exact ties at few decimals
        elif k < .7:
            vals.append(struct.unpack('d', struct.pack('Q', rng.getrandbits(64) & 0x7fefffffffffffff))[0] * rng.choice([1, -1]))
        else:
            vals.append(rng.uniform(-1, 1) * 10 ** rng.randint(-20, 20))
    lines, info = [], []
    for v in vals:
        ff = rng.choice(['f0', 'f1', 'f2', 'f3', 'f5', 'f8', 'f13', 'f16', 'f17', 'e0', 'e1', 'e5', 'e8', 'e13', 'e16'])
        lines.append(f'fmt {ff} {cm.fr(v)}')
        info.append((v, ff))
    outs = ctx.driver.ask_many(lines)
    for (v, ff), o in zip(info, outs):
        want = fmt_py(ff) % v
        if v == 0 and want.startswith('-'):
            want = want[1:]
        p = o.split()
        got = unhex(p[1]) if p[0] == 'ok' else o
        ctx.stats.case('fmt', (v, ff), sample={'value': v, 'format': fmt_py(ff), 'text': want})
        if got != want:
            ctx.disagree('fmt', f'{fmt_py(ff)} % {v!r}: Python prints {want!r}, the model {got!r}', {'op': 'fmt', 'v': v, 'ff': ff})
        elif Fraction(p[2]) != Fraction(want):
            ctx.disagree('fmt-value', f'{fmt_py(ff)} % {v!r}: model value {p[2]} differs from the text {want!r}',
                         {'op': 'fmt', 'v': v, 'ff': ff})
    # the independent number parser against Python's own reading of the same tokens
    toks = ['1.5', '-1.5e3', '+.5', '5.', '1e5', '1E-3', '.', 'e5', '1.5.', '0x10', '12', '-0', '1e', '1e+', '--1',
            '1.5e+03', '007', '-.5e-2', '', '1_0', 'nan', 'inf', '1.0e', '+', '-', '3.e2']
    toks += [(fmt_py(ff) % v) for v, ff in info[:200]]
    outs = ctx.driver.ask_many(['pnum ' + hexs(t) for t in toks])
    for t, o in zip(toks, outs):
        want = 'ok ' + cm.fr(Fraction(t)) if _FLT.match(t) else 'err:format'
        ctx.stats.case('pnum', t)
        if o != want:
            ctx.disagree('pnum', f'number token {t!r}: model parser says {o}, expected {want}', {'op': 'pnum', 'tok': t})


def decode_pdata(o):
    p = o.split()
    if p[0] != 'ok':
        return None
    it = iter(p[1:])
    hint = next(it)
    wf = next(it) == '1'
    natoms = int(next(it))
    ntypes = int(next(it))
    hilo = [Fraction(next(it)) for _ in range(9)]
    na = int(next(it))
    k = int(next(it))
    atoms = []
    for _ in range(na):
        aid = int(next(it))
        ty = int(next(it))
        pos = [Fraction(next(it)) for _ in range(3)]
        img = [int(next(it)) for _ in range(3)]
        unw = [Fraction(next(it)) for _ in range(3)]
        rel = [Fraction(next(it)) for _ in range(3)]
        vals = [Fraction(next(it)) for _ in range(k)]
        atoms.append({'vals': vals, 'image': img, 'unw': unw, 'rel': rel, 'id': aid, 'type': ty, 'pos': pos})
    hv = next(it) == '1'
    kv = int(next(it))
    vel = None
    if hv:
        vel = [[Fraction(next(it)) for _ in range(kv)] for _ in range(na)]
    return {'natoms': natoms, 'ntypes': ntypes, 'hilo': hilo, 'has_tilt': None, 'hint': None if hint == '-' else hint.replace('+', ' '),
            'atoms': atoms, 'vel': vel, 'wf': wf}


INFO_WORDS = ('units', 'atom_style', 'boundary', 'read_data')


def info_lines(info):
    """the lines of a command snippet the property speaks about (a potential adds pair_style / mass lines)."""
    return [l.split() for l in info.split('\n') if l.split() and l.split()[0] in INFO_WORDS]


def run_cases(ctx, cases, tie=True):
    """model vs implementation on the same cases: (a) text, (b) the Lean parser on the real text vs the system."""
    try:
        _run_cases(ctx, cases, tie)
    finally:
        ensure_wu(None)


def _run_cases(ctx, cases, tie):
    # which units / atom_style / natypes a data-file call uses is the model's answer (arguments, potential, defaults)
    dcases = [c for c in cases if c['kind'] == 'data']
    resolved = {}
    for c, o in zip(dcases, ctx.driver.ask_many([resolve_line(c) for c in dcases])):
        p = o.split()
        if p[0] != 'ok':
            raise cm.InfraError(f'model driver: {o} for {resolve_line(c)}')
        resolved[id(c)] = (p[1], p[2].replace('+', ' '), int(p[3]))
        ctx.stats.case('resolve', resolve_line(c), sample=None)
        want = (c['units'], c['style'], c['natypes'] or c['d']['natypes'])
        if resolved[id(c)] != want:
            ctx.disagree('data:resolve', f'data-file call with arguments {call_args(c)}, natypes {c["natypes"]}, potential '
                                         f'{c.get("potential")}: the model uses {resolved[id(c)]}, the harness expects {want}',
                         {'op': 'data', 'case': case_replay(c)})
    lines = []
    for c in cases:
        ensure_wu(c.get('wu'))
        lines.append(model_line(c, resolved.get(id(c))) if one_line_strings(c) else 'lex -')
    outs = ctx.driver.ask_many(lines)
    follow = []
    for c, line, o in zip(cases, lines, outs):
        real = real_call(c)
        kind = c['kind']
        exact = exact_expected(c)
        nontriv = real[0] == 'ok'
        ctx.stats.case(kind, line if one_line_strings(c) else repr(case_replay(c)), nontrivial=nontriv, sample=case_sample(c))
        ctx.extra.setdefault('results', {}).setdefault(kind, {}).setdefault(real[0], 0)
        ctx.extra['results'][kind][real[0]] += 1
        if not one_line_strings(c):
            if real[0] != 'err:assert':
                ctx.disagree('poscar:line-break', f'POSCAR with a line break in the comment / mode line ({c["header"]!r}, '
                                                  f'{c["coordstyle"]!r}): expected a refusal (AssertionError), got {real[0]}',
                             {'op': kind, 'case': case_replay(c)})
            continue
        mo = o.split()
        if real[0] == 'err:channel':
            ctx.disagree(f'{kind}:{real[2]}', f'{kind} dump: {real[1]}', {'op': kind, 'case': case_replay(c)})
            continue
        if real[0] != 'ok':
            if mo[0] == 'ok' or o != real[0]:
                ctx.disagree(f'{kind}:error-class', f'{kind} dump: atomman raises {real[1]} ({real[0]}), the model answers '
                                                    f'{o[:40]}', {'op': kind, 'case': case_replay(c)})
            continue
        if mo[0] != 'ok':
            ctx.disagree(f'{kind}:error-class', f'{kind} dump: atomman writes a file, the model refuses with {o}',
                         {'op': kind, 'case': case_replay(c)})
            continue
        mtext = unhex(mo[1])
        rtext = real[1]
        a, b = canon_zero(rtext), canon_zero(mtext)
        if c['ff'].startswith('%'):
            # width / flags: same digits as the plain format the model prints; blanks, a plus sign, leading zeros and
            # the case of the exponent letter do not change what a reader of these formats gets
            a, b = squeeze_blanks(a), squeeze_blanks(b)
        if exact or not near_discontinuity(c['d']) or kind != 'data':
            diff = None if a == b else text_diff(a, b, c['ff'], None if exact else written_magnitude(c))
            ctx.extra.setdefault('text', {}).setdefault('identical' if a == b else ('within-precision' if diff is None else 'differs'), 0)
            ctx.extra['text']['identical' if a == b else ('within-precision' if diff is None else 'differs')] += 1
            if diff is not None:
                ctx.disagree(f'{kind}:text', f'{kind} file text differs between atomman and the model '
                                             f'({"exact regime" if exact else "to printed precision"}): {diff}',
                             {'op': kind, 'case': case_replay(c), 'real': rtext, 'model': mtext})
        if kind == 'data':
            minfo = unhex(mo[2])
            if real[2] is not None and (info_lines(minfo) != info_lines(real[2]) if c.get('potential') else minfo != real[2]):
                ctx.disagree('data:info', f'command snippet differs: atomman {real[2]!r}, model {minfo!r}',
                             {'op': kind, 'case': case_replay(c)})
        if tie and kind == 'table':
            follow.append((c, real, f"ptable {1 if c['header'] else 0} {hexs(rtext)}"))
        elif tie and not unresolved(c, rtext):
            if kind == 'data':
                f = unit_factors(c['units']).get('length') or Fraction(1)
                ext = min(abs(F(c['d']['vects'][i][i])) for i in range(3)) / f
                eps = 16 * quantum_of(c['ff'], written_magnitude(c)) / ext + Fraction(1, 10 ** 9)
                follow.append((c, real, f"pdata {c['style'].replace(' ', '+')} {cm.fr(eps)} {hexs(rtext)}"))
            elif kind == 'dump':
                follow.append((c, real, f'pdump {hexs(rtext)}'))
            elif kind == 'poscar':
                follow.append((c, real, f'pposcar {hexs(rtext)}'))
    if not follow:
        return
    outs = ctx.driver.ask_many([f[2] for f in follow])
    for (c, real, _l), o in zip(follow, outs):
        kind = c['kind']
        ensure_wu(c.get('wu'))
        ctx.stats.case('parse:' + kind, _l[:2000], sample=None)
        if not o.startswith('ok'):
            ctx.disagree(f'{kind}:unparsable', f'the independent {kind} parser of the model rejects atomman\'s output ({o})',
                         {'op': kind, 'case': case_replay(c), 'real': real[1]})
            continue
        if kind == 'table':
            if not table_same(o, real[1], c['header']):
                ctx.disagree('table:parsers', 'table: the model reader and the Python split-at-blanks reader read different '
                                              'column names / values from atomman\'s output',
                             {'op': kind, 'case': case_replay(c), 'real': real[1]})
            continue
        try:
            if kind == 'data':
                parsed = decode_pdata(o)
                ref = py_parse_data(real[1], c['style'])
                parsed['has_tilt'] = ref['has_tilt']
                fails = check_data(c['d'], c['style'], c['units'], c['ff'], c['natypes'] or c['d']['natypes'], parsed)
                if not parsed['wf'] and not fails:
                    fails = [('wellformed', 'model well-formedness test (counts, ids 1..N, lo<hi, atoms inside) is false')]
                same = (parsed['hilo'] == ref['hilo'] and [a['vals'] for a in parsed['atoms']] == [a['vals'] for a in ref['atoms']]
                        and [a['image'] for a in parsed['atoms']] == [a['image'] for a in ref['atoms']] and parsed['vel'] == ref['vel'])
            elif kind == 'dump':
                parsed, same = decode_pdump(o, real[1])
                fails = check_dump(c['d'], c['units'], c['ff'], parsed, c.get('timestep', 0))
            else:
                parsed, same = decode_pposcar(o, real[1])
                fails = check_poscar(c['d'], c['ff'], c['coordstyle'], c['scale'], c['symbols'], parsed)
        except ValueError as e:
            ctx.disagree(f'{kind}:parse', f'{kind}: the Python oracle parser rejects the output the model parser accepted: {e}',
                         {'op': kind, 'case': case_replay(c), 'real': real[1]})
            continue
        if not same:
            ctx.disagree(f'{kind}:parsers', f'{kind}: the model parser and the Python oracle parser read different values',
                         {'op': kind, 'case': case_replay(c), 'real': real[1]})
        for key, msg in fails:
            ctx.disagree(f'{kind}:describes:{key}', f'{kind} file read by the model parser does not describe the system: {msg}',
                         {'op': kind, 'case': case_replay(c), 'real': real[1]})


def table_same(o, text, header):
    """reply of the Lean `parseTable` vs an independent split-at-blanks reading of the same text."""
    it = iter(o.split()[1:])
    cols = next(it)
    cols = None if cols == '-' else cols.split('+')
    rows = []
    for _ in range(int(next(it))):
        n = int(next(it))
        rows.append([Fraction(next(it)) for _ in range(n)])
    lines = text.split('\n')
    if lines and lines[-1] == '':
        lines.pop()
    want_cols = None
    if header:
        want_cols = lines[0].split()
        lines = lines[1:]
    try:
        want = [[p_num(t) for t in l.split()] for l in lines]
    except ValueError:
        return False
    return cols == want_cols and rows == want


def decode_pdump(o, text):
    p = o.split()
    it = iter(p[1:])
    ts = int(next(it))
    n = int(next(it))
    tri = next(it) == '1'
    boundary = next(it).split('+')
    bbox = [Fraction(next(it)) for _ in range(6)]
    hilo = [Fraction(next(it)) for _ in range(9)]
    nc = int(next(it))
    cols = next(it).split('+') if nc else []
    rows = [[Fraction(next(it)) for _ in range(nc)] for _ in range(n)]
    ref = py_parse_dump(text)
    same = (ts == ref['timestep'] and n == ref['natoms'] and tri == ref['tri'] and boundary == ref['boundary']
            and hilo == ref['hilo'] and cols == ref['cols'] and rows == [[Fraction(t) for t in r] for r in ref['rows']])
    nv = int(next(it))
    variants = {}
    for _ in range(nv):
        name = next(it)
        variants[name] = [[Fraction(next(it)) for _ in range(3)] for _ in range(n)]
    # the model's unscaled positions must agree with the oracle's unscaling
    h = ref['hilo']
    W = [[h[1] - h[0], 0, 0], [h[6], h[3] - h[2], 0], [h[7], h[8], h[5] - h[4]]]
    WO = [h[0], h[2], h[4]]
    for suf in ('s', 'su'):
        names3 = [a + suf for a in 'xyz']
        if all(x in ref['cols'] for x in names3):
            want = [cart_of([Fraction(r[ref['cols'].index(x)]) for x in names3], W, WO) for r in ref['rows']]
            if variants.get('x' + suf) != want:
                same = False
    return ref, same


def decode_pposcar(o, text):
    p = o.split()
    it = iter(p[1:])
    scale = Fraction(next(it))
    lat = [[Fraction(next(it)) for _ in range(3)] for _ in range(3)]
    sym = next(it)
    nc = int(next(it))
    counts = [int(next(it)) for _ in range(nc)]
    cart = next(it) == '1'
    n = int(next(it))
    raw = [[Fraction(next(it)) for _ in range(3)] for _ in range(n)]
    pos = [[Fraction(next(it)) for _ in range(3)] for _ in range(n)]
    ref = py_parse_poscar(text)
    same = (scale == ref['scale'] and lat == ref['lattice'] and counts == ref['counts'] and cart == ref['cart']
            and raw == ref['raw'] and (None if sym == '-' else sym.split('+')) == ref['symbols'])
    want = [[r[j] * scale for j in range(3)] if cart else cart_of(r, lat, [0, 0, 0]) for r in raw]
    if pos != want:
        same = False
    return ref, same


def retarget(rng, c, style, units, d):
    """give a generated data case another atom_style / unit style / system (working units of the case kept)."""
    c.pop('potential', None)
    c.pop('args', None)
    c['style'], c['units'], c['ff'] = style, units, pick_format(rng, units)
    c['d'] = scale_desc(d, c.get('wu'))
    return c


# ----------------------------------------------------------------------------------------
# systems of a given SIZE: block-wise evaluation, fast paths and compact integer types switch on at a number of
# atoms (blocks of 2048 / 4096 / 65536 rows, n = k*block + 1, ids that no longer fit 8 / 16 bits)
# ----------------------------------------------------------------------------------------
MEDIUM_SIZES = sorted({(1 << k) + e for k in range(7, 14) for e in (-1, 0, 1)} | {1000, 1001, 2000, 4999, 5000, 10001})
BIG_SIZES_A = [65535, 65536, 65537, 65538, 70000, 70001, 66000]
BIG_SIZES_B = [131071, 131072, 131073, 131074, 140000, 2 * 70001, 196609]


def sized_desc(spec):
    """the system of a sized case, rebuilt from its specification {'n', 'seed', 'props', 'ntypes', 'ids'} (the replay
    file stores the specification, not 140 000 positions): atoms on the sites (i, j, k)*2 + 1/2 of a cubic grid in a
    cell whose edges are powers of two with dyadic tilts (the float arithmetic of the writers is exact), every 97th
    atom moved out of the cell by whole cell vectors along the periodic directions; per-atom values multiples of 1/16."""
    np = _np()
    n, seed = spec['n'], spec['seed']
    rs = np.random.RandomState(seed)
    m = 1
    while m ** 3 < n:
        m += 1
    L = 2.0
    while L < 2.0 * m:
        L *= 2.0
    g = np.array(np.meshgrid(np.arange(m), np.arange(m), np.arange(m), indexing='ij')).reshape(3, -1).T[:n]
    g = g[rs.permutation(n)] if spec.get('shuffle', True) else g
    pos = g * 2.0 + 0.5
    tri = seed % 3
    xy, xz, yz = [(0.0, 0.0, 0.0), (L / 8, -L / 4, L / 8), (0.0, 0.0, -3 * L / 8)][tri]
    vects = np.array([[L, 0.0, 0.0], [xy, L, 0.0], [xz, yz, L]])
    origin = np.array([(seed % 5) - 2.0, 0.0, (seed % 7) * 0.5])
    if spec.get('jitter'):
        # no exact arithmetic: sites displaced by up to 0.3, cell stretched by a factor that is not a dyadic number
        # (numbers that single precision or a shortcut in the arithmetic does not reproduce)
        pos = pos + rs.uniform(-0.3, 0.3, size=pos.shape)
        vects = vects * 1.0173
        origin = origin + rs.uniform(-0.5, 0.5, size=3)
    # the sites are relative coordinates of an orthogonal grid; in the tilted cell use them as box-relative ones
    pos = (pos / L) @ vects + origin
    pbc = [bool((seed >> i) & 1) for i in range(3)] if seed % 4 else [True, True, True]
    out = np.arange(spec.get('out_from', 0), n, 97)
    for i in range(3):
        if pbc[i]:
            pos[out] += np.outer(rs.randint(-2, 3, size=len(out)), vects[i])
    ntypes = spec.get('ntypes', 2)
    atype = 1 + rs.randint(0, ntypes, size=n)
    atype[:ntypes] = np.arange(1, ntypes + 1)[:n]
    props = {}
    if spec.get('ids') == 'reversed':
        props['atom_id'] = (True, (), [[n - i] for i in range(n)])
    elif spec.get('ids') == 'odd':
        props['atom_id'] = (True, (), [[2 * i + 1] for i in range(n)])
    for name in spec.get('props', []):
        if name == 'm_id':
            props[name] = (True, (), (1 + rs.randint(0, 50, size=(n, 1))).tolist())
        else:
            nc = 3 if name in ('velocity', 'force') else 1
            vals = rs.randint(-128, 129, size=(n, nc)) / 16
            if spec.get('jitter'):
                vals = vals + rs.uniform(-0.03, 0.03, size=vals.shape)
            props[name] = (False, () if nc == 1 else (3,), vals.tolist())
    d = {'pbc': pbc, 'vects': vects.tolist(), 'origin': origin.tolist(), 'atype': atype.tolist(), 'natypes': int(max(atype.max(), ntypes)),
         'pos': pos.tolist(), 'props': props, 'symbols': None, 'regime': 'generic' if spec.get('jitter') else 'grid'}
    if spec.get('idt'):
        d['idt'] = dict(spec['idt'])
    return d


def sized_case(rng, kind, n):
    """one writer on a system of exactly n atoms with few properties."""
    seed = rng.randint(1, 10 ** 6)
    ff = rng.choice(['f5', 'f3', 'f8', 'f13', 'e8']) if n <= 20000 else rng.choice(['f13', 'f8', 'e13', 'f13', 'e8'])
    if kind == 'data':
        style = rng.choice(['atomic', 'atomic', 'charge', 'molecular'])
        props = [p[0] for p in needed_props(style, rng.random() < 0.4)]
        spec = {'n': n, 'seed': seed, 'props': props, 'ntypes': rng.randint(1, 3)}
        c = {'kind': 'data', 'style': style, 'units': 'metal', 'ff': ff, 'natypes': None, 'fname': None, 'opts': {}, 'pre': False,
             'wu': None}
        if rng.random() < 0.3:
            c['opts'] = {'safecopy': True}
    elif kind == 'dump':
        spec = {'n': n, 'seed': seed, 'props': [p for p in ('velocity', 'charge') if rng.random() < 0.3], 'ntypes': rng.randint(1, 3),
                'ids': rng.choice([None, None, 'reversed', 'odd'])}
        pn = None
        if n > 20000:
            # a large system: every position variant (a size-dependent path of one of them must show)
            pn = ['atom_id', 'atype', 'pos', 'spos', 'upos', 'supos'] + spec['props']
        elif rng.random() < 0.4:
            pn = ['atom_id', 'atype'] + rng.sample(['pos', 'spos', 'upos', 'supos'], 2) + spec['props']
        c = {'kind': 'dump', 'units': 'metal', 'ff': ff, 'prop_names': pn, 'explicit': None,
             'timestep': rng.choice([0, n, 2 * n + 1]), 'out': None, 'pre': False, 'wu': None}
    elif kind == 'poscar':
        spec = {'n': n, 'seed': seed, 'props': [], 'ntypes': rng.randint(1, 4)}
        c = {'kind': 'poscar', 'coordstyle': rng.choice(['direct', 'cartesian']), 'scale': rng.choice([1.0, 2.0, 0.5]),
             'symbols': None, 'symarg': None, 'header': 'sized', 'ff': rng.choice(['f8', 'f13', 'e13', 'f5']), 'out': None, 'pre': False}
    else:
        spec = {'n': n, 'seed': seed, 'props': [p for p in ('velocity', 'charge', 'm_id') if rng.random() < 0.4],
                'ntypes': rng.randint(1, 3)}
        c = {'kind': 'table', 'units': 'metal', 'ff': ff, 'header': rng.random() < 0.5, 'out': None, 'pre': False, 'wu': None}
    if n > 20000 and rng.random() < 0.5 and kind != 'poscar':
        # a large file through a file name / an open stream as well
        names = {'data': 'atom.dat', 'dump': 'a.dump', 'table': 'table.txt'}
        if kind == 'data':
            c['fname'] = rng.choice([names[kind], '<stream>'])
        else:
            c['out'] = rng.choice(['path:' + names[kind], 'stream'])
    # the atoms outside the cell start at this index (only the last atom; only those beyond a power of two, ...)
    p2 = 1
    while 2 * p2 < n:
        p2 *= 2
    spec['jitter'] = rng.random() < (0.5 if n <= 20000 else 0.85 if n <= 100000 else 1.0)
    spec['out_from'] = rng.choice([0, 0, n - 1, p2, p2 + 1, n // 2, max(n - 98, 0), min(4096, n - 1), min(1000, n - 1)])
    if rng.random() < 0.4:
        spec['idt'] = {'atype': rng.choice(['uint8', 'int16', 'int32', 'uint16', 'uint64'])}
        if spec.get('ids') and rng.random() < 0.7:
            spec['idt']['atom_id'] = rng.choice(['int32', 'uint32', 'uint64'])
        if 'm_id' in spec['props']:
            spec['idt']['m_id'] = rng.choice(['uint8', 'int16', 'uint16'])
    c['sized'] = spec
    c['d'] = sized_desc(spec)
    if kind == 'table':
        if rng.random() < 0.5:
            c['cols'], c['defaults'] = default_table_cols(c['d']), rng.random() < 0.5
        else:
            cols = [('a_id', 'none', ['id']), ('atype', 'none', ['type']), ('pos', rng.choice(['length', 'scaled']), ['x', 'y', 'z'])]
            kinds = {'velocity': 'velocity', 'charge': 'charge'}
            for name, (_ii, shape, _a) in c['d']['props'].items():
                cols.append((name, kinds.get(name, 'none'), [name] if not shape else [f'{name}{a}' for a in 'xyz']))
            c['cols'], c['defaults'] = cols, False
    return c


def sized_cases(rng, sizes, kinds=('data', 'dump', 'poscar', 'table'), per_size=None):
    """`per_size` None: every size through every writer; k: k writers per size, taken in turn."""
    out = []
    j = rng.randrange(len(kinds))
    for n in sizes:
        ks = kinds if per_size is None else [kinds[(j + i) % len(kinds)] for i in range(per_size)]
        j += per_size or 0
        for kind in ks:
            out.append(sized_case(rng, kind, n))
    return out


# every unit-bearing standard column of a dump file / kind of table column (dump manual page + LAMMPS units page)
UNIT_PROPS = [('velocity', 0, 3), ('force', 0, 3), ('charge', 0, 1), ('mass', 0, 1), ('radius', 0, 1), ('diameter', 0, 1),
              ('mu', 0, 3), ('mu_mag', 0, 1), ('ang_velocity', 0, 3), ('ang_momentum', 0, 3), ('torque', 0, 3)]
TABLE_KINDS = {'velocity': 'velocity', 'force': 'force', 'charge': 'charge', 'mass': 'mass', 'radius': 'length',
               'mu': 'dipole', 'ang_velocity': 'ang-vel', 'ang_momentum': 'ang-mom', 'torque': 'force*length',
               'density': 'density', 'volume': 'volume'}


def unit_matrix_cases(rng):
    """EVERY unit-bearing column kind in EVERY unit style, under atomman's default working units, a named and a
    random configuration: a dump file holding all standard unit-bearing per-atom properties, and a table whose
    columns are converted with each kind of unit of the style.  Written with a %e format, so that every factor shows
    in the digits whatever its size (a fixed-point format prints a charge in picocoulombs as 0.00000).  The expected
    factor is the oracle's (`oracle_factor`: the units page evaluated with numericalunits' constants)."""
    from atomman.lammps import style as lstyle
    out = []
    for un in UNIT_STYLES:
        for wu in (None, dict(rng.choice(WU_NAMED)), {'seed': rng.randint(1, 10 ** 6)}):
            d = gen_desc(rng, 'generic', UNIT_PROPS, nmax=4, many_types=0.0)
            d.pop('masses', None)
            out.append({'kind': 'dump', 'd': scale_desc(d, wu), 'units': un, 'ff': rng.choice(['e13', 'e8', 'e10']),
                        'prop_names': None, 'explicit': None, 'timestep': rng.choice([0, 7, 4000]), 'out': None,
                        'pre': False, 'wu': wu})
            lu = lstyle.unit(un)
            props = [(p, 0, 3 if p in ('velocity', 'force', 'mu', 'ang_velocity', 'ang_momentum', 'torque') else 1)
                     for p, kd in TABLE_KINDS.items() if all(x in lu and lu[x] is not None for x in kd.split('*'))]
            d = gen_desc(rng, 'generic', props, nmax=4, many_types=0.0)
            d.pop('masses', None)
            cols = [('atype', 'none', ['type']), ('pos', 'length' if lu['length'] is not None else 'none', ['x', 'y', 'z'])]
            for p, _i, nc in props:
                cols.append((p, TABLE_KINDS[p], [p] if nc == 1 else [f'{p}_{a}' for a in 'xyz']))
            out.append({'kind': 'table', 'd': scale_desc(d, wu), 'units': un, 'ff': rng.choice(['e13', 'e8', 'e10']),
                        'cols': cols, 'header': True, 'out': None, 'pre': False, 'wu': wu, 'defaults': False})
    return out


def matrix_cases(rng):
    """the combinations every run covers whatever the random stream draws:
    every writer x output route (file name / open stream) x target (new / existing and not empty);
    every writer with a unit conversion x named and random working units x unit styles;
    a potential object together with explicit / left-out units= and atom_style=;
    per-atom tensors of every shape in dump files and tables (selected columns and the defaults)."""
    out = []
    gens = {'data': gen_data_case, 'dump': gen_dump_case, 'poscar': gen_poscar_case, 'table': gen_table_case}
    names = {'data': 'atom.dat', 'dump': 'a.dump', 'poscar': 'POSCAR', 'table': 'table.txt'}
    k = 0
    for kind, g in gens.items():
        for route in ('path', 'stream'):
            for pre in (True, True, False):
                k += 1
                c = g(rng, k, wu_p=0.0) if kind != 'poscar' else g(rng, k)
                if kind == 'poscar' and not one_line_strings(c):
                    c['header'], c['coordstyle'] = 'x', 'direct'
                if kind == 'data':
                    c['fname'] = names[kind] if route == 'path' else '<stream>'
                else:
                    c['out'] = 'path:' + names[kind] if route == 'path' else 'stream'
                c['pre'] = pre
                out.append(c)
    wus = list(WU_NAMED) + [{'seed': rng.randint(1, 10 ** 6)} for _ in range(2)]
    for wu in wus:
        for un in ('metal', 'real', 'nano', rng.choice(['si', 'micro', 'cgs', 'electron'])):
            for kind in ('data', 'dump', 'table'):
                k += 1
                c = gens[kind](rng, k, wu_p=0.0)
                c['wu'] = dict(wu)
                if kind == 'data':
                    st = rng.choice(['atomic', 'charge', 'sphere', 'full', 'hybrid sphere dipole'])
                    d = gen_desc(rng, 'generic', needed_props(st, True), nmax=6)
                    retarget(rng, c, st, un, d)
                    c['natypes'] = None
                else:
                    c['units'] = un
                    c['ff'] = pick_format(rng, un)
                    if kind == 'table' and un not in ('metal', 'real', 'si', 'nano'):
                        c['units'] = 'nano'
                        c['ff'] = pick_format(rng, 'nano')
                    c['d'] = scale_desc(c['d'], c['wu'])
                out.append(c)
    out += unit_matrix_cases(rng)
    # the time step of a dump file in every numeric form a system may hold it
    for form in sorted(set(TS_FORMS)) + ['none', 'absent']:
        k += 1
        c = gen_dump_case(rng, k, wu_p=0.0)
        ts = 0 if form in ('none', 'absent') else rng.choice([t for t in (25000, 1200000, 100, 4000, 2 ** 31 + 5, 0, 7)
                                                               if form in ts_forms_for(t)])
        c['timestep'], c['tsform'] = ts, form
        out.append(c)
    for give in ((True, True), (True, False), (False, True), (False, False)):
        for un in ('si', 'real', 'nano'):
            k += 1
            c = gen_data_case(rng, k, wu_p=0.0)
            st = rng.choice(['atomic', 'charge', 'sphere'])
            retarget(rng, c, st, un, gen_desc(rng, 'generic', needed_props(st, True), nmax=5, many_types=0.0))
            c['natypes'] = None
            add_potential(rng, c, force_explicit=True)
            a, pot = c['args'], c['potential']
            if not give[0]:
                a['units'], pot['units'] = None, c['units']
            if not give[1]:
                a['style'], pot['atom_style'] = None, c['style']
            out.append(c)
    for kind in ('dump', 'table', 'table'):
        for j in range(2):
            k += 1
            c = gens[kind](rng, k, wu_p=0.0)
            d = gen_desc(rng, 'grid' if j else 'generic', TENSORS, nmax=6)
            c['d'], c['wu'] = d, None
            if kind == 'dump':
                c['prop_names'], c['explicit'] = (None, None) if j else (['atom_id', 'atype', 'pos'] + [t[0] for t in TENSORS][::-1], None)
            else:
                c['cols'] = default_table_cols(d)
                c['defaults'] = bool(j)
                c['header'] = True
            out.append(c)
    return out


POS_VARIANTS = ['pos', 'spos', 'upos', 'supos']


def posvariant_cases(seed, scaled):
    """dump files with EVERY ordered non-empty subset of the four position variants (x y z, xs ys zs, xu yu zu,
    xsu ysu zsu: 64 column orders); `scaled`: besides, each subset holding `pos` with the unit 'scaled' on the pos entry
    itself (x y z box-relative, or named xs ys zs when no spos column claims the names) - one request changes what the
    writer's table of positions holds while the other variants are derived next to it.  Cells are triclinic or
    orthogonal with an origin away from zero (never the unit cube at the origin, where Cartesian = relative), atoms
    inside and outside; the caller's forms (plain names / prop_info list / parallel lists) taken in turn.  Own random
    stream: the cases of the other generators stay what they were."""
    import itertools
    rng = random.Random(seed * 104729 + 5)
    out = []
    k = 0
    for r in range(1, 5):
        for sub in itertools.permutations(POS_VARIANTS, r):
            for pu in ((None, 'scaled') if ('pos' in sub and scaled) else (None,)):
                k += 1
                extra = [p for p in DUMP_EXTRA[:2] if rng.random() < 0.2]
                d = gen_desc(rng, 'grid' if k % 2 else 'generic', extra, lammps=True, nmax=5)
                if all(abs(x) < 1e-12 for x in d['origin']):
                    d['origin'] = [0.5, -1.25, 2.0]
                    d['pos'] = [[p[j] + d['origin'][j] for j in range(3)] for p in d['pos']]
                pn = ['atom_id', 'atype'] + list(sub) + [p[0] for p in extra]
                if k % 5 == 0:
                    pn = list(sub) + ['atype', 'atom_id'] + [p[0] for p in extra]
                units = 'metal' if k % 3 else rng.choice(['real', 'si', 'nano', 'lj'])
                c = {'kind': 'dump', 'd': d, 'units': units, 'ff': pick_format(rng, units), 'prop_names': pn,
                     'explicit': [None, 'prop_info', 'lists'][k % 3], 'timestep': 0, 'out': None, 'pre': False, 'wu': None}
                if pu:
                    c['posunit'] = pu
                    c['explicit'] = ['prop_info', 'lists'][k % 2]
                    if 'spos' not in sub and k % 3 == 0:
                        c['posnames'] = ['xs', 'ys', 'zs']
                elif scaled:
                    continue
                out.append(c)
    return out


def huge_cases(seed):
    """THOROUGH tier only: ONE system of a few atoms more than 2^20 = 1 048 576 through every writer (tables with and
    without the column-name line), generated one at a time (each holds ~10^6 rows of python numbers).  Row-count
    thresholds above ~1.4e5 atoms (BIG_SIZES_B) are out of reach of the quick tier: one such table costs ~10 s."""
    rb = random.Random(seed * 31 + 2)
    n = 2 ** 20 + rb.choice([1, 5, 17])
    for kind, hdr in (('table', True), ('table', False), ('data', None), ('dump', None), ('poscar', None)):
        c = sized_case(rb, kind, n)
        if hdr is not None:
            c['header'] = hdr
            c['hform'] = None
        yield c


def correspond(ctx):
    rng = ctx.rng
    correspond_fmt(ctx, rng, ctx.n(1500, 30000))
    nd, nu, npo, nt = ctx.n(260, 6000), ctx.n(160, 3000), ctx.n(160, 3000), ctx.n(60, 1000)
    cases = [gen_data_case(rng, i) for i in range(nd)] + [gen_dump_case(rng, i) for i in range(nu)] \
        + [gen_poscar_case(rng, i) for i in range(npo)] + [gen_table_case(rng, i) for i in range(nt)]
    cases += matrix_cases(rng)
    # systems of 2^k - 1, 2^k, 2^k + 1 (k = 7..13), 1000, 5000, 10001 atoms, one writer each (taken in turn)
    cases += sized_cases(rng, MEDIUM_SIZES if not ctx.thorough else MEDIUM_SIZES + [16383, 16385, 32769], per_size=1)
    # hybrids whose sub-styles define the same unit-bearing column, each under a unit style with a charge / mass /
    # density / length factor other than one (the model converts every column exactly once)
    for k, st in enumerate(SHARED_HYBRIDS):
        for un in (['si', 'cgs', 'micro'][k % 3], rng.choice(UNIT_STYLES)):
            c = gen_data_case(rng, k)
            retarget(rng, c, st, un, gen_desc(rng, c['d']['regime'], needed_props(st, k % 3 == 0), nmax=5))
            c['natypes'] = None
            cases.append(c)
    # every ordered subset of the position variants of a dump file (own random stream)
    cases += posvariant_cases(ctx.seed, False)
    for i in range(0, len(cases), 200):
        run_cases(ctx, cases[i:i + 200])
    route_cases(ctx, ctx.disagree)
    defaults_cases(ctx, ctx.disagree)
    # bounding-box map and its inverse on their own
    lines, hs = [], []
    for _ in range(ctx.n(200, 4000)):
        v, o = gen_box(rng, 'grid')
        h = [o[0], o[0] + v[0][0], o[1], o[1] + v[1][1], o[2], o[2] + v[2][2], v[1][0], v[2][0], v[2][1]]
        hs.append([F(x) for x in h])
        lines.append('bbox ' + ' '.join(cm.fr(x) for x in h))
    for h, o in zip(hs, ctx.driver.ask_many(lines)):
        vals = cm.unfrs(o[3:])
        xy, xz, yz = h[6:]
        want = [h[0] + min(0, xy, xz, xy + xz), h[1] + max(0, xy, xz, xy + xz), h[2] + min(0, yz), h[3] + max(0, yz),
                h[4], h[5]]
        ctx.stats.case('bbox', tuple(h))
        if vals[:6] != want or vals[6:] != h:
            ctx.disagree('bbox', f'bounding box of {h}: model {vals[:6]}, LAMMPS formula {want}', {'op': 'bbox', 'h': [str(x) for x in h]})



ROUTE_KINDS = {'data': ('atom_data', 'return_info'), 'dump': ('atom_dump', 'return_prop_info'),
               'table': ('table', 'return_prop_info'), 'poscar': ('poscar', None)}


def route_observe(d, kind, target, want):
    """one real call of a writer with f = nothing / a file name / an open stream and its second return value asked for
    or not -> (text among the returned values?, another value returned?, text arrived in the target?, number of
    returned values, does the snippet name the target?) or an error string."""
    import io
    import os
    import shutil
    import tempfile
    fmt, flag = ROUTE_KINDS[kind]
    kw = {}
    if kind == 'data':
        kw['safecopy'] = True
    ref = build_system(d).dump(fmt, **({flag: False} if flag else {}), **kw)
    if not isinstance(ref, str):
        return f'without a target and without the second value the call returns {type(ref).__name__}, not the text'
    if flag:
        kw[flag] = bool(want)
    tmp = tempfile.mkdtemp(prefix='c07r_')
    cwd = os.getcwd()
    os.chdir(tmp)
    try:
        if target == 'none':
            r, arrived = build_system(d).dump(fmt, **kw), None
        elif target == 'stream':
            buf = io.StringIO()
            r, arrived = build_system(d).dump(fmt, f=buf, **kw), None
            arrived = buf.getvalue()
        else:
            r = build_system(d).dump(fmt, f='route.out', **kw)
            arrived = open('route.out', newline='').read() if os.path.exists('route.out') else None
    finally:
        os.chdir(cwd)
        shutil.rmtree(tmp, ignore_errors=True)
    vals = [] if r is None else list(r) if isinstance(r, tuple) else [r]
    has_text = any(isinstance(v, str) and v == ref for v in vals)
    others = [v for v in vals if not (isinstance(v, str) and v == ref)]
    names = any(isinstance(v, str) and 'read_data route.out' in v for v in others)
    if arrived is not None and arrived != ref and arrived != '':
        return f'the target holds {arrived[:60]!r}..., not the text the call returns without a target'
    return (has_text, bool(others), arrived == ref, len(vals), names)


def defaults_cases(ctx, report):
    """atom_dump.dump without prop_name / shape: which properties, in which order, with which shapes (model:
    `defaultDumpProps`, proved equal to the defaults regenerated from the source).  Systems with own atom ids standing
    first / in the middle / last among the properties, vectors and tensors; the real answer is the filled-in prop_info
    (`return_prop_info=True`) and the ITEM: ATOMS line."""
    rng = random.Random(ctx.seed * 7919 + 13)
    pool = [('velocity', 0, 3), ('charge', 0, 1), ('stress', 0, (3, 3)), ('m_id', 1, 1), ('w', 0, (2, 2))]
    for k in range(6):
        extra = rng.sample(pool, rng.randint(0, 3))
        if k % 3 != 2:
            extra.insert(rng.randint(0, len(extra)), ('atom_id', 1, 1))
        d = gen_desc(rng, 'grid', props=extra, nmax=4)
        if 'atom_id' in d['props']:
            d['props']['atom_id'] = (True, (), [[7 + 3 * i] for i in range(len(d['atype']))])
        system = build_system(d)
        stored = [(nm, tuple(system.atoms.view[nm].shape[1:])) for nm in system.atoms_prop()]
        line = f'dumpdefaults {len(stored)} ' + ' '.join(f'{nm} {len(sh)}' + ''.join(f' {x}' for x in sh) for nm, sh in stored)
        o = ctx.driver.ask(line)
        if not o.startswith('ok'):
            raise cm.InfraError(f'model driver: {o} for {line}')
        model = [(w.split(':')[0], tuple(int(x) for x in w.split(':')[1].split(',') if x)) for w in o.split()[1:]]
        try:
            text, pinfo = system.dump('atom_dump', return_prop_info=True)
            real = [(q['prop_name'], tuple(q['shape'])) for q in pinfo]
            names = [l for l in text.split('\n') if l.startswith('ITEM: ATOMS')][0].split()[2:]
            ncols = sum(int(math.prod(sh)) for _n, sh in real)
            if len(names) != ncols:
                real = f'{ncols} components in prop_info, {len(names)} names in the ITEM: ATOMS line'
        except Exception as e:  # noqa
            real = f'{type(e).__name__}: {e}'
        ctx.stats.case('dumpdefaults', line, sample={'stored': [nm for nm, _ in stored]})
        if real != model:
            report('dump:defaults', f'atom_dump dump without prop_name of a system holding {stored}: atomman uses {real}, '
                                    f'expected {model}', {'op': 'dump', 'case': case_replay(
                                        {'kind': 'dump', 'd': d, 'units': 'metal', 'ff': 'f5', 'prop_names': None, 'timestep': 0})})


def route_cases(ctx, report, use_model=True, d=None, only=None):
    """where the text goes (model: `deliver`, proved equal to the tail of every writer as the source has it): every
    writer x {no target, file name, open stream} x second return value asked for or not.  In the search the expected
    outcome is written down independently: the text is returned exactly when no target is given, else it arrives in
    the target; the second value comes back exactly when asked for; only a file name is named by the snippet."""
    rng = random.Random(ctx.seed * 7919 + 11)
    d = d or gen_desc(rng, 'grid', props=(), nmax=4)
    combos = [(k, t, w) for k in ROUTE_KINDS for t in ('none', 'path', 'stream') for w in (0, 1)]
    if only:
        combos = [tuple(only)]
    outs = ctx.driver.ask_many([f'route {k} {t} {w}' for k, t, w in combos]) if use_model else [None] * len(combos)
    for (k, t, w), o in zip(combos, outs):
        if use_model:
            p = o.split()
            if p[0] != 'ok':
                raise cm.InfraError(f'model driver: {o} for route {k} {t} {w}')
            model_t = (p[1] == '1', p[2] == '1', p[3] == '1', int(p[4]), p[5] == '1' and k == 'data' and w == 1)
        else:
            second = bool(w) and k != 'poscar'
            model_t = (t == 'none', second, t != 'none', int(t == 'none') + int(second), k == 'data' and second and t == 'path')
        try:
            real = route_observe(d, k, t, w)
        except Exception as e:  # noqa
            real = f'{type(e).__name__}: {e}'
        ctx.stats.case('route', (k, t, w), sample={'writer': k, 'target': t, 'second_value': w})
        model = model_t
        if real != model:
            what = real if isinstance(real, str) else (
                f'text returned {real[0]}, second value returned {real[1]}, text in the target {real[2]}, {real[3]} returned '
                f'values, snippet names the file {real[4]}')
            report(f'{k}:route', f'{ROUTE_KINDS[k][0]} dump with f = {t} and {ROUTE_KINDS[k][1]} = {bool(w)}: {what}; expected: '
                                 f'text returned {model[0]}, second value {model[1]}, text in the target {model[2]}, '
                                 f'{model[3]} returned values, snippet names the file {model[4]}',
                   {'op': 'route', 'writer': k, 'target': t, 'want': w, 'd': case_replay({'d': d})['d']})


# ----------------------------------------------------------------------------------------
# search: the clauses of the property on the real output, parsed by the Python oracle parsers
# ----------------------------------------------------------------------------------------

def should_succeed(c):
    """is this a request LAMMPS' formats can express, so that raising is itself a failure of the property?"""
    d = c['d']
    V, _O, _P = fr_sys(d)
    if c['kind'] == 'poscar':
        return expressible(c)
    if not is_lammps_norm(V):
        return False
    if c['kind'] == 'data':
        need = needed_props(c['style'], 'velocity' in d['props'])
        if any(p[0] not in d['props'] for p in need):
            return False
        fields = list(layout_of(LAYOUT, c['style']))
        if 'velocity' in d['props']:
            fields += layout_of(VEL_LAYOUT, c['style'])
        return all(oracle_factor(c['units'], f[1]) != 'undefined' for f in fields)
    if c['kind'] == 'dump':
        ids = d['props'].get('atom_id')
        if ids is not None and len({tuple(r) for r in ids[2]}) != len(ids[2]):
            return False
        kinds = {'length'}
        for nm, _sh in dump_props_for_wire(c):
            kinds |= {k for (k, p, _c) in DUMPCOLS.values() if p == nm and k and k != 'scaled'}
        return all(oracle_factor(c['units'], k) != 'undefined' for k in kinds)
    return True


def unresolved(c, text):
    """the chosen float_format cannot resolve the cell at all (e.g. '%.1f' of a 0.02-wide cell): nothing to check."""
    d = c['d']
    if c['kind'] == 'poscar':
        return False
    f = unit_factors(c['units']).get('length') or Fraction(1)
    ext = min(abs(F(d['vects'][i][i])) for i in range(3)) / f
    return ext < 100 * quantum_of(c['ff'], ext)


def oracle_case(ctx, c, report):
    try:
        _oracle_case(ctx, c, report)
    finally:
        ensure_wu(None)


def _oracle_case(ctx, c, report):
    real = real_call(c)              # switches to the working units of the case
    kind = c['kind']
    ctx.stats.case('oracle:' + kind, repr(case_replay(c))[:4000], nontrivial=real[0] == 'ok', sample=None)
    rp = {'op': kind, 'case': case_replay(c)}
    if real[0] == 'err:channel':
        report(f'{kind}:{real[2]}', f"System.dump('{ {'data': 'atom_data', 'dump': 'atom_dump'}.get(kind, kind)}'): {real[1]}", rp)
        return
    if not one_line_strings(c):
        if real[0] != 'err:assert':
            report('poscar:line-break', f'a comment / mode line with a line break in it ({c["header"]!r}, {c["coordstyle"]!r}) '
                                        f'is not refused: {real[0]} {real[1][:80]!r}', rp)
        return
    if not expressible(c):
        if real[0] == 'ok':
            report('poscar:scale', f'box_scale={c["scale"]!r} is written as the universal scaling factor '
                                   f'({real[1].split(chr(10))[1]!r} on line 2) and used as a multiplier; by the POSCAR rules a '
                                   'value that is not positive is not one (negative = cell volume)', rp)
        return
    if real[0] != 'ok':
        if should_succeed(c):
            what = {'data': f"atom_style {c.get('style')!r}, units {c.get('units')!r}", 'dump': f"lammps_units {c.get('units')!r}",
                    'poscar': f"coordstyle {c.get('coordstyle')!r}", 'table': ''}[kind]
            report(f'{kind}:raises', f"System.dump('{ {'data': 'atom_data', 'dump': 'atom_dump'}.get(kind, kind)}') raises "
                                     f'{real[1]} for a valid system ({what}); no file is written', rp)
        return
    text = real[1]
    rp['real'] = text
    if kind == 'table':
        return check_table(ctx, c, text, report, rp)
    if unresolved(c, text):
        ctx.extra['unresolved_format'] = ctx.extra.get('unresolved_format', 0) + 1
        return
    try:
        if kind == 'data':
            parsed = py_parse_data(text, c['style'], sample_rows(len(c['d']['atype'])))
            fails = check_data(c['d'], c['style'], c['units'], c['ff'], c['natypes'] or c['d']['natypes'], parsed,
                               info=real[2], fname=info_fname(c))
        elif kind == 'dump':
            parsed = py_parse_dump(text)
            fails = check_dump(c['d'], c['units'], c['ff'], parsed, c.get('timestep', 0), c.get('posunit') == 'scaled')
        else:
            parsed = py_parse_poscar(text, sample_rows(len(c['d']['atype'])))
            fails = check_poscar(c['d'], c['ff'], c['coordstyle'], c['scale'], c['symbols'], parsed)
    except ValueError as e:
        report(f'{kind}:malformed', f'{kind} file is not well-formed under the format rules: {e}', rp)
        return
    for key, msg in fails:
        report(f'{kind}:{key}', f'{kind} file does not describe the system: {msg}', rp)


def check_table(ctx, c, text, report, rp):
    d = c['d']
    lines = text.split('\n')
    if lines and lines[-1] == '':
        lines.pop()
    names = [n for _p, _u, nm in c['cols'] for n in nm]
    # one blank between the words; a format with a width / blank flag pads with more
    words = (lambda l: l.split()) if c['ff'].startswith('%') else (lambda l: l.split(' '))
    if c['header']:
        if lines[0].split(' ') != names:
            report('table:header', f'header line {lines[0]!r} vs column names {names}', rp)
        lines = lines[1:]
    n = len(d['atype'])
    if len(lines) != n:
        report('table:count', f'{len(lines)} rows for {n} atoms', rp)
        return
    V, O, P = fr_sys(d)
    f = unit_factors(c['units'])
    ck = Checker(c['ff'], magnitude(d, f.get('length') or None))
    rowset = sample_rows(n)
    rowset = None if rowset is None else set(rowset)
    for k, l in enumerate(lines):
        toks = words(l)
        if len(toks) != len(names):
            report('table:row', f'row {k} has {len(toks)} words for {len(names)} columns: {l[:200]!r}', rp)
            return
        if rowset is not None and k not in rowset:
            continue
        j = 0
        for prop, us, nm in c['cols']:
            for comp in range(len(nm)):
                t = toks[j]
                j += 1
                rv = raw_value(d, prop, comp, k)
                want = None if rv is not None and (rv != rv or abs(rv) == float('inf')) else prop_value(d, prop, comp, k)
                is_int = prop in ('a_id', 'atype') or (prop in d['props'] and d['props'][prop][0])
                if us == 'scaled':
                    want = rel_of(P[k], V, O)[comp] if prop == 'pos' else want
                    is_int = False
                elif us != 'none':
                    fac = oracle_factor(c['units'], us)
                    if fac == 'undefined':
                        continue
                    want = want / fac if fac and want is not None else want
                    is_int = False
                if is_int and not _INT.match(t):
                    ck.fail('int', f'integer column {nm[comp]} written as {t!r}')
                    continue
                if is_int:
                    if Fraction(int(t)) != want:
                        ck.fail(nm[comp], f'{nm[comp]}[{k}]: table says {int(t)}, the system has {int(want)}')
                    continue
                if want is None:
                    rv = raw_value(d, prop, comp, k)
                    if not special_ok(t, rv):
                        ck.fail('nonfinite', f'{nm[comp]}[{k}]: the system has {rv!r}, the table has {t!r}')
                    continue
                try:
                    if us == 'scaled':
                        ck.num(f'{nm[comp]}[{k}]', p_num(t), want, 4)
                    else:
                        ck.own(f'{nm[comp]}[{k}]', p_num(t), want)
                except ValueError as e:
                    ck.fail('word', f'{nm[comp]}[{k}]: {e}')
    for key, msg in ck.fails:
        report(f'table:{key}', f'table does not hold the system\'s values: {msg}', rp)


def gen_session(rng):
    """several data-file dumps in ONE process, alternating hybrid / base / other hybrid styles in the same unit
    style: every file must describe its own system whatever was written before (tables that remember earlier
    calls, shared mutable column lists)."""
    un = rng.choice(UNIT_STYLES)
    styles = []
    for _ in range(rng.randint(3, 6)):
        r = rng.random()
        styles.append(gen_hybrid(rng) if r < 0.45 else 'atomic' if r < 0.65 else rng.choice(ALL_STYLES) if r < 0.85
                      else rng.choice(styles) if styles else 'atomic')
    cases = []
    wu = gen_wu(rng, 0.2)
    for j, st in enumerate(styles):
        c = gen_data_case(rng, j, wu_p=0.0)
        c['wu'] = wu
        retarget(rng, c, st, un if rng.random() < 0.8 else rng.choice(UNIT_STYLES),
                 gen_desc(rng, c['d']['regime'], needed_props(st, rng.random() < 0.3), nmax=4))
        c['natypes'] = None
        cases.append(c)
    return cases


class _QuietCtx:
    """just enough of ctx for oracle_case outside a check run (fresh-process confirmation)."""

    class _Stats:
        def case(self, *a, **k):
            pass

    def __init__(self):
        self.stats = self._Stats()
        self.extra = {}
        self.notes = []


def _fresh_main():
    """entry point of the confirmation subprocess: run the dumps read from stdin in order, stop at the first one
    with a failed clause, print its index and the failed clauses as JSON."""
    import json
    import sys
    import warnings
    warnings.filterwarnings('ignore')
    cases = [case_from_replay(x) for x in json.load(sys.stdin)]
    ctx = _QuietCtx()
    res = [-1, []]
    for j, c in enumerate(cases):
        found = []
        oracle_case(ctx, c, lambda key, what, rp: found.append([key, what]))
        if found:
            res = [j, found]
            break
    sys.stdout.write('\n@@RESULT@@' + json.dumps(res))


def first_failure_in_fresh_process(cases):
    """run the dumps `cases` in this order in a NEW interpreter on the same tree.
    -> (index of the first dump with a failed clause, [[key, what], ...]) | (-1, []) | None (could not be run)."""
    import json
    import os
    import subprocess
    import sys
    env = dict(os.environ)
    env['PYTHONPATH'] = os.pathsep.join([p for p in sys.path if p])
    env['PYTHONWARNINGS'] = 'ignore'
    try:
        r = subprocess.run([sys.executable, '-c', 'from harness.props import c07; c07._fresh_main()'],
                           input=json.dumps([case_replay(c) for c in cases]), capture_output=True, text=True,
                           env=env, timeout=600, cwd=str(cm.VERIF))
    except Exception:  # noqa
        return None
    if '@@RESULT@@' not in r.stdout:
        return None
    j, found = json.loads(r.stdout.split('@@RESULT@@', 1)[1])
    return j, found


_session = {'confirm_left': 4, 'fresh_left': 14, 'polluted': False}
_alone_keys = set()
_history_dependent = []


def report_sequence(report, cases, j, found):
    prefix = cases[:j + 1]
    for key, what in found:
        report('session:' + key, f'dump {j + 1} of a sequence of {j + 1} dumps in one process '
                                 f'(styles {[x["style"] for x in prefix]}; the same dump alone in a fresh process is '
                                 f'fine): {what}', {'op': 'session', 'cases': [case_replay(x) for x in prefix]})


def oracle_session(ctx, cases, report):
    """run the dumps of a session in order.  A failed clause is confirmed in a fresh interpreter before it is
    reported, so that the replay stored with it reproduces: the failing dump alone if that fails on its own, else
    the sequence up to it (state kept between calls).  If neither reproduces, the failure depends on calls made
    earlier in this process by other parts of the run: from then on the sequences are executed in fresh
    interpreters only, until one fails from scratch."""
    if _session['polluted']:
        if _session['fresh_left'] <= 0:
            return
        _session['fresh_left'] -= 1
        r = first_failure_in_fresh_process(cases)
        ctx.stats.case('oracle:session-fresh', repr([c['style'] for c in cases]), nontrivial=True, sample=None)
        if r and r[0] >= 0:
            j, found = r
            alone = first_failure_in_fresh_process([cases[j]]) if j > 0 else (0, found)
            if alone and alone[0] >= 0:
                for key, what in found:
                    report(key, what, {'op': cases[j]['kind'], 'case': case_replay(cases[j])})
            else:
                report_sequence(report, cases, j, found)
            _session['fresh_left'] = 0
        return
    for j, c in enumerate(cases):
        found = []
        oracle_case(ctx, c, lambda key, what, rp: found.append((key, what, rp)))
        if not found:
            continue
        keys = {k for k, _w, _r in found}
        if keys & _alone_keys or _session['confirm_left'] <= 0:
            # the same clause already failed for a dump on its own (or no confirmation left): plain report
            for key, what, rp in found:
                report(key, what, rp)
            return
        _session['confirm_left'] -= 1
        alone = first_failure_in_fresh_process([c])
        if alone is None or alone[0] >= 0:
            _alone_keys.update(keys)
            for key, what, rp in found:
                report(key, what, rp)
            return
        seq = first_failure_in_fresh_process(cases[:j + 1])
        if seq is not None and seq[0] >= 0:
            report_sequence(report, cases, seq[0], seq[1])
            return
        ctx.extra['session_history_dependent'] = ctx.extra.get('session_history_dependent', 0) + 1
        ctx.notes.append(f'C07 session: dump of style {c["style"]!r} fails in this process but neither alone nor after '
                         f'{[x["style"] for x in cases[:j]]} in a fresh one: {found[0][1][:200]}')
        _history_dependent.append((found, cases[:j + 1]))
        _session['polluted'] = True
        return


def search(ctx, broken):
    rng = random.Random(ctx.seed * 7919 + 17)
    mult = 3 if broken else 1
    # call sequences first: their replay (a fresh process running the same sequence) reproduces state-dependent
    # failures that a single-call replay would not
    del _history_dependent[:]
    _alone_keys.clear()
    _session.update(confirm_left=4, fresh_left=14, polluted=False)
    nviol = len(ctx.violations)
    for _ in range(ctx.n(25, 400) * mult):
        oracle_session(ctx, gen_session(rng), ctx.violate)
    if _history_dependent and len(ctx.violations) == nviol:
        # nothing reproduced from scratch: report what was seen, replay = the whole search
        found, prefix = _history_dependent[0]
        ctx.violate('session:history:' + found[0][0], 'depends on calls made earlier in the process: ' + found[0][1],
                    {'op': 'search', 'styles': [x['style'] for x in prefix]})
    nd, nu, npo, nt = (ctx.n(260, 5000) * mult, ctx.n(150, 3000) * mult, ctx.n(150, 3000) * mult, ctx.n(50, 800) * mult)
    report = ctx.violate
    # every atom style x unit style once, deterministically, before the random stream
    base = []
    k = 0
    for st in ALL_STYLES + HYBRIDS + SHARED_HYBRIDS:
        for un in UNIT_STYLES:
            c = gen_data_case(rng, k)
            k += 1
            retarget(rng, c, st, un, gen_desc(rng, c['d']['regime'], needed_props(st, k % 2 == 0)))
            if c['natypes'] is not None:
                c['natypes'] = c['d']['natypes'] + 1
            base.append(c)
    for un in UNIT_STYLES:
        c = gen_dump_case(rng, 0, wu_p=0.0)
        c['units'] = un
        c['ff'] = pick_format(rng, un)
        base.append(c)
    base += matrix_cases(rng)
    # sizes: every writer on 2^k - 1, 2^k, 2^k + 1 atoms (k = 7..13) and a few more; one system of about 70 000 and one
    # of about 140 000 atoms (just below / at / above 65536 and 131072 among them) through every writer
    base += sized_cases(rng, MEDIUM_SIZES)
    base += sized_cases(rng, [65537], per_size=2)
    for _ in range(ctx.n(1, 3)):
        base += sized_cases(rng, [rng.choice(BIG_SIZES_A), rng.choice(BIG_SIZES_B)])
    # the search also draws what the model has no counterpart for: %g formats, values at the edges of the double range
    cases = base + [gen_data_case(rng, i) for i in range(nd)] + [gen_dump_case(rng, i, specials=0.15) for i in range(nu)] \
        + [gen_poscar_case(rng, i) for i in range(npo)] + [gen_table_case(rng, i, specials=0.25) for i in range(nt)]
    # every ordered subset of the position variants of a dump file, with and without the unit 'scaled' on pos itself
    cases += posvariant_cases(ctx.seed, False) + posvariant_cases(ctx.seed, True)
    for c in cases:
        oracle_case(ctx, c, report)
    # pinned regression inputs (simple systems that exposed defects before)
    for c in pinned_cases():
        oracle_case(ctx, c, report)
    route_cases(ctx, report, use_model=False)
    if ctx.thorough:
        for c in huge_cases(ctx.seed):
            oracle_case(ctx, c, report)


def pinned_cases():
    def desc(props=(), pbc=(True, True, True), vects=None, origin=(0.0, 0.0, 0.0), natoms=3):
        vects = vects or [[4.0, 0.0, 0.0], [0.0, 8.0, 0.0], [0.0, 0.0, 2.0]]
        pos = [[0.5, 1.25, 1.0], [1.25, 3.5, 0.125], [3.0, 7.5, 1.5]][:natoms]
        d = {'pbc': list(pbc), 'vects': vects, 'origin': list(origin), 'atype': [1, 2, 1][:natoms], 'natypes': 2,
             'pos': pos, 'props': {}, 'symbols': None, 'regime': 'grid'}
        for name, is_int, nc in props:
            d['props'][name] = (bool(is_int), () if nc == 1 else (nc,),
                                [[(k + 1) * (0.5 if not is_int else 1) + c for c in range(nc)] for k in range(natoms)])
        return d
    out = []
    for cs, sc in (('direct', 1.0), ('cartesian', 2.0), ('direct', 2.0), ('cartesian', 1.0)):
        out.append({'kind': 'poscar', 'd': desc(), 'coordstyle': cs, 'scale': sc, 'symbols': None, 'header': '', 'ff': 'e13'})
    for st in ('atomic', 'charge', 'hybrid charge'):
        for un in ('metal', 'si', 'nano'):
            out.append({'kind': 'data', 'd': desc(needed_props(st, True)), 'style': st, 'units': un,
                        'ff': pick_format(random.Random(0), un), 'natypes': None, 'fname': None})
    out.append({'kind': 'data', 'd': desc(vects=[[4.0, 0.0, 0.0], [0.0, 8.0, 0.0], [0.0, 1.0, 2.0]]), 'style': 'atomic',
                'units': 'metal', 'ff': 'f13', 'natypes': None, 'fname': 'a.dat'})
    out.append({'kind': 'dump', 'd': desc(vects=[[4.0, 0.0, 0.0], [1.0, 8.0, 0.0], [-1.5, 1.0, 2.0]], origin=(1.0, -2.0, 0.5)),
                'units': 'metal', 'ff': 'f13', 'prop_names': None})
    return out


def replay(ctx, payload):
    r = payload.get('replay', {})
    if r.get('op') == 'session':
        cases = [case_from_replay(x) for x in r['cases']]
        before = len(ctx.violations)
        oracle_session(ctx, cases, ctx.violate)
        for c in cases:
            print('replay session step', {k: v for k, v in c.items() if k != 'd'})
        print('violations on this sequence:', [(f.key, f.what) for f in ctx.violations[before:]])
    elif 'case' in r:
        c = case_from_replay(r['case'])
        before = len(ctx.violations)
        oracle_case(ctx, c, ctx.violate)
        real = real_call(c)
        print('replay', c['kind'], {k: v for k, v in c.items() if k != 'd'})
        print(real[1] if len(real) > 1 else real)
        if real[0] == 'ok' and c['kind'] == 'data':
            print(real[2])
        print('violations on this input:', [(f.key, f.what) for f in ctx.violations[before:]])
    elif r.get('op') == 'fmt':
        print('fmt', fmt_py(r['ff']) % r['v'])
    elif r.get('op') == 'route':
        before = len(ctx.violations)
        route_cases(ctx, ctx.violate, use_model=False, d=case_from_replay({'d': r['d']})['d'], only=(r['writer'], r['target'], r['want']))
        print('replay route', r['writer'], r['target'], r['want'])
        print('violations on this input:', [(f.key, f.what) for f in ctx.violations[before:]])
    else:
        search(ctx, True)
    ensure_wu(None)
