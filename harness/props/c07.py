"""C07 — written LAMMPS data / dump / table and POSCAR files are well-formed and describe the system."""
from __future__ import annotations

import ast
import math
import random
import re
from fractions import Fraction

from .. import common as cm
from ..translate import TranslationError

PROP = 'C07'
GENERATED = ['AtomStyles']

# ----------------------------------------------------------------------------------------
# translator: atom_style -> column tables, dump standard columns, unit-style table
# ----------------------------------------------------------------------------------------

_MARK = re.compile(r'@([a-z]+)@([A-Za-z \-]+?)@')


class _Marks(dict):
    """what `style.unit(units)` returns inside the translator: every key the real function defines maps to
    a marker naming (units, key), so the *kind* of unit each column uses is recovered symbolically."""

    def __init__(self, units, keys):
        super().__init__({k: f'@{units}@{k}@' for k in keys})


def _exec_without_imports(src, ns, what):
    try:
        tree = ast.parse(src)
    except SyntaxError as e:
        raise TranslationError(f'{what}: {e}')
    tree.body = [n for n in tree.body if not isinstance(n, (ast.Import, ast.ImportFrom))]
    exec(compile(tree, what, 'exec'), ns)
    return tree


def _style_names(tree, var):
    """string constants the function compares `var` with (`var == 'x'`, `var in ('x', …)`)."""
    out = []
    for n in ast.walk(tree):
        if isinstance(n, ast.Compare) and isinstance(n.left, ast.Name) and n.left.id == var and len(n.ops) == 1:
            c = n.comparators[0]
            if isinstance(n.ops[0], ast.Eq) and isinstance(c, ast.Constant) and isinstance(c.value, str):
                out.append(c.value)
            elif isinstance(n.ops[0], ast.In) and isinstance(c, (ast.Tuple, ast.List)):
                out += [e.value for e in c.elts if isinstance(e, ast.Constant) and isinstance(e.value, str)]
    seen = []
    for s in out:
        if s not in seen:
            seen.append(s)
    return seen


def _real_style():
    ns = {'OrderedDict': __import__('collections').OrderedDict}
    tree = _exec_without_imports(cm.source('atomman/lammps/style.py'), ns, 'style.py')
    if 'unit' not in ns:
        raise TranslationError('style.py: function unit not found')
    fn = [n for n in tree.body if isinstance(n, ast.FunctionDef) and n.name == 'unit']
    names = _style_names(fn[0], 'units')
    if not names:
        raise TranslationError('style.py: no unit styles found')
    return ns['unit'], names


class _StubStyle:
    def __init__(self, real_unit):
        self.real_unit = real_unit

    def unit(self, units='metal'):
        return _Marks(units, list(self.real_unit(units).keys()))


def _kind(u, want_units, where, notes):
    """marker string -> unit kind ('length', 'force*length', 'scaled', None)."""
    if u is None:
        return None
    if not isinstance(u, str):
        raise TranslationError(f'{where}: unit {u!r} is not a string')
    for m in _MARK.finditer(u):
        if m.group(1) != want_units:
            notes.add(m.group(1))
    k = _MARK.sub(lambda m: m.group(2), u)
    if '@' in k:
        raise TranslationError(f'{where}: cannot read unit {u!r}')
    return k


def _cols(prop_info, want_units, where, notes):
    cols = []
    if not isinstance(prop_info, list):
        raise TranslationError(f'{where}: prop_info is not a list')
    for p in prop_info:
        if not isinstance(p, dict) or 'prop_name' not in p:
            raise TranslationError(f'{where}: malformed prop_info entry {p!r}')
        extra = set(p) - {'prop_name', 'table_name', 'unit'}
        if extra:
            raise TranslationError(f'{where}: unsupported prop_info fields {sorted(extra)}')
        tn = p.get('table_name', p['prop_name'])
        tn = [tn] if isinstance(tn, str) else list(tn)
        cols.append((p['prop_name'], tn, _kind(p.get('unit'), want_units, where, notes)))
    return cols


def _lean_str(s):
    if not re.fullmatch(r'[A-Za-z0-9_ \-\*/\^\.\(\)\[\]]*', s):
        raise TranslationError(f'string {s!r} outside the supported alphabet')
    return '"' + s + '"'


def _lean_col(c):
    name, tn, kind = c
    k = 'none' if kind is None else f'(some {_lean_str(kind)})'
    return f'({_lean_str(name)}, [{", ".join(_lean_str(t) for t in tn)}], {k})'


def extract_tables():
    """evaluate the (pure) table functions of the working tree with a symbolic `style.unit`."""
    real_unit, unit_names = _real_style()
    stub = _StubStyle(real_unit)
    out = {'unit_names': unit_names, 'errors': {}}
    # unit styles
    out['unit_styles'] = {}
    for un in unit_names:
        d = real_unit(un)
        out['unit_styles'][un] = [(k, v) for k, v in d.items()]
    probe_units = 'si' if 'si' in unit_names else unit_names[0]
    forwarded = True
    for key, rel, fname in (('atom', 'atomman/dump/atom_data/atoms_prop_info.py', 'atoms_prop_info'),
                            ('vel', 'atomman/dump/atom_data/velocities_prop_info.py', 'velocities_prop_info')):
        ns = {'style': stub}
        tree = _exec_without_imports(cm.source(rel), ns, rel)
        if fname not in ns:
            raise TranslationError(f'{rel}: function {fname} not found')
        fn = [n for n in tree.body if isinstance(n, ast.FunctionDef) and n.name == fname][0]
        names = _style_names(fn, 'atom_style')
        if not names:
            raise TranslationError(f'{rel}: no atom styles found')
        table = []
        for st in names:
            notes = set()
            try:
                cols = _cols(ns[fname](st, probe_units), probe_units, f'{fname}({st!r})', notes)
            except TranslationError:
                raise
            except Exception as e:  # the real function raises for this style: recorded, columns empty
                out['errors'][f'{fname}:{st}'] = f'{type(e).__name__}: {e}'
                cols = []
            if notes:
                forwarded = False
            table.append((st, cols))
        out[key] = table
        # hybrid: does the composition forward `units`?
        subs = [s for s, c in table if c and s != 'atomic'][:3]
        for sub in subs:
            notes = set()
            try:
                _cols(ns[fname]('hybrid ' + sub, probe_units), probe_units, f'{fname}(hybrid {sub})', notes)
            except TranslationError:
                raise
            except Exception as e:
                out['errors'][f'{fname}:hybrid {sub}'] = f'{type(e).__name__}: {e}'
            if notes:
                forwarded = False
    out['hybrid_forwards_units'] = forwarded
    # dump standard conversions
    rel = 'atomman/dump/atom_dump/process_prop_info.py'
    ns = {'style': stub, 'deepcopy': __import__('copy').deepcopy, 'indexstr': None, 'Optional': None}
    src = cm.source(rel).replace('Optional[list]', 'object')
    _exec_without_imports(src, ns, rel)
    if 'standard_conversions' not in ns:
        raise TranslationError(f'{rel}: standard_conversions not found')
    notes = set()
    out['dump'] = _cols(ns['standard_conversions'](probe_units), probe_units, 'standard_conversions', notes)
    if notes:
        out['hybrid_forwards_units'] = False
    return out


def translate():
    t = extract_tables()
    L = ['/- GENERATED by harness/props/c07.py from atomman/dump/atom_data/{atoms,velocities}_prop_info.py,',
         '   atomman/dump/atom_dump/process_prop_info.py and atomman/lammps/style.py — do not edit. -/',
         'namespace Atomman.Gen.AtomStyles', '',
         '/-- (prop_name, table names, unit kind = key of `style.unit`, `"scaled"`, or none) -/',
         'abbrev Col := String × List String × Option String', '']
    for key, name, doc in (('atom', 'atomStyles', 'Atoms section of a data file, per atom_style'),
                           ('vel', 'velStyles', 'Velocities section of a data file, per atom_style')):
        L.append(f'/-- {doc} (an empty column list = the Python function raises for that style). -/')
        L.append(f'def {name} : List (String × List Col) := [')
        rows = []
        for st, cols in t[key]:
            rows.append(f'  ({_lean_str(st)}, [{", ".join(_lean_col(c) for c in cols)}])')
        L.append(',\n'.join(rows) + ']')
        L.append('')
    L.append('/-- `standard_conversions` of the dump-file writer. -/')
    L.append('def dumpStandard : List Col := [')
    L.append(',\n'.join('  ' + _lean_col(c) for c in t['dump']) + ']')
    L.append('')
    L.append('/-- does every table (the hybrid composition included) use the unit style it was asked for? -/')
    L.append(f'def forwardsUnits : Bool := {"true" if t["hybrid_forwards_units"] else "false"}')
    L.append('')
    L.append('/-- `style.unit`: unit style ↦ (kind ↦ unit expression). -/')
    L.append('def unitStyles : List (String × List (String × Option String)) := [')
    rows = []
    for un in t['unit_names']:
        ents = []
        for k, v in t['unit_styles'][un]:
            if v is not None and not isinstance(v, str):
                raise TranslationError(f'style.unit({un!r})[{k!r}] is not a string')
            ents.append(f'({_lean_str(k)}, {"none" if v is None else "some " + _lean_str(v)})')
        rows.append(f'  ({_lean_str(un)}, [{", ".join(ents)}])')
    L.append(',\n'.join(rows) + ']')
    L.append('')
    L.append('end Atomman.Gen.AtomStyles\n')
    return {'AtomStyles': '\n'.join(L)}
