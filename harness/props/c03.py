"""C03 — neighbor list lists exactly the pairs closer than the cutoff.

Tie: translator (the two capacity-growth blocks of nlist.pyx -> `Generated/NlistStorage.lean`) + correspondence
(hand-written Lean model `Atomman/C03.lean`, exact over Rat) against the real `NeighborList` /
`System.neighborlist` / `nlist` on identical rational inputs; rows, coordination numbers, final storage width,
dumped text, re-loaded rows and whole operation sequences on one object are compared.
Search: the clauses of the property on the real code with an exact integer-arithmetic oracle (27-candidate distance
of C02; true nearest image by lattice enumeration inside a proven radius as cross-check).
"""
from __future__ import annotations

import json
import math
import os
import random
import tempfile
from fractions import Fraction
from pathlib import Path

from .. import common as cm

PROP = 'C03'
THEOREMS = [
    'C03.insert_inv', 'C03.alg_inv', 'C03.alg_sound', 'C03.alg_eq_compared', 'C03.alg_order_irrelevant',
    'C03.storage_refines', 'C03.storage_coord', 'C03.adjacent_bins', 'C03.ghost_exists',
    'C03.compared_complete', 'C03.alg_complete', 'C03.nlistA_complete', 'C03.dist2_symm',
    'C03.nlist_text_roundtrip',
    'C03.bins_refine', 'C03.src_bins_sound', 'C03.cands_table_eq', 'C03.nlistFull_complete',
    'C03.nbr_growth_as_modelled', 'C03.answers_fresh', 'C03.answers_history_independent', 'C03.answers_complete',
    'C03.src_reals_double', 'C03.src_scalars_as_modelled', 'C03.dump_as_modelled', 'C03.src_dump_roundtrip',
    'C03.getitem_as_modelled',
    'C03.spec_scale_invariant', 'C03.nlist_scale_invariant', 'C03.spec_translate_invariant',
    'C03.nlist_translate_invariant',
    'C03.spec_mirror_invariant', 'C03.nlist_mirror_invariant', 'C03.spec_farface_invariant',
    'C03.nlist_farface_invariant', 'C03.spec_reorder_invariant', 'C03.nlist_reorder_invariant',
    'C03.spec_axes_invariant', 'C03.nlist_axes_invariant',
    # round 5: source tie part 2 (Generated/NlistSource.lean, Proofs/C03_Source.lean) and the call forms
    'C03.gen_corner_eq_model', 'C03.gen_cornerLoop_eq_model', 'C03.gen_superTests_eq_model', 'C03.gen_superbox_eq_model',
    'C03.gen_bins_eq_model', 'C03.gen_ghostShifts_eq_model', 'C03.gen_ghostPos_eq_model', 'C03.gen_inSuper_eq_model',
    'C03.gen_stencil_eq_model', 'C03.gen_skipBin_eq_model', 'C03.pairsOf_eq_loops', 'C03.gen_scans_eq_model',
    'C03.scan_exhausted', 'C03.src_defaults_valid', 'C03.nlistCall_complete', 'C03.nlistCall_form_irrelevant',
    'C03.sweep_loops_as_modelled',
    # statement audit: the driver's memoised acceptance test / pipeline is the model of the theorems; shape of the array
    'C03.table_accept_as_modelled', 'C03.driver_pipeline_as_modelled', 'C03.nlistCall_shape',
    'C03.nlistCall_sizes_irrelevant', 'C03.nlistCall_structure', 'C03.nearCutoff_iff',
]
PARTIAL = {}
RULE = ('systems: orthogonal / tilted / general (rotated, left-handed) cells with non-zero origin, all 8 pbc '
        'settings, 1-60 atoms placed uniformly / clustered / on faces / on float bin edges / on a dyadic grid '
        '(exact double arithmetic: distance == cutoff ties decided exactly; every 5th grid case stores the positions '
        'as float32, every 5th as int64), cutoff 0.1-1.5 cell widths, initialsize, deltasize in 1..25; "hunt" systems: '
        '2-4 atoms, cutoff 0.3-0.9 of the cell lengths, one atom within 1% of a cutoff below a cell face and separations '
        'of mixed sign across two axes (pairs that are close only through a periodic image with the ghost in a bin '
        'without real atoms); "dense" systems: 55-130 atoms in one to three clusters narrower than a bin, or a small '
        'periodic cell with cutoff 0.9-2.4 widths, or 55-100 grid atoms (coincident ones included): more than 40 real '
        '+ ghost atoms in ONE bin (bin table grows 1-6 times) and coordination numbers far above initialsize (rows grow '
        'many times, deltasize down to 1); "shear" systems: LAMMPS-form cells with tilt factors up to 2.5 cell edges, '
        'mildly tilted cells re-expressed in a non-reduced basis (integer combinations with coefficients up to 2), '
        'rotated / left-handed, flat and needle-like, cutoff 0.3-1.2 of the shortest lattice vector among the 26 '
        'image shifts, float and dyadic-grid; "outside" systems (correspondence only): atoms up to half a cutoff outside '
        'the cell, where the result depends on the binning; "sequence": ONE System object, 3-7 times (query -> one small '
        'change), the change drawn from 24 kinds (the cell spanned from the far face of one vector (that vector negated), '
        'the whole system mirrored through coordinate planes, one atom moved in place / through Atoms.prop / through the scaled '
        'setter, all atoms replaced through the setter / the view / scaled, two atoms swapped, pbc setter or in-place '
        'flip, box_set scale=True / scale=False / box.set, rigid translation, atoms_extend, atoms_ix subset, deepcopy, '
        'wrap, System.neighborlist(model=dump of the previous answer), r0(), other cutoff, other sizes, nothing), the '
        'query through NeighborList(system=), System.neighborlist or nlist(); every answer is compared for the state '
        'read back from the object at that moment, and earlier answers must not change. '
        '"fine": exact regime for cutoffs that single precision cannot hold — everything a multiple of 2^-(24-e), cutoff '
        'C*unit with C odd in [2^24, 2^25) (25 significant bits: exact in double with an exact square), 2-14 atoms, '
        'designed pairs along an axis at C+k units, exact ties in general directions (four-square identity) and one unit '
        'off them, general directions within 2|D_z| units^2 of C^2, directly and through periodic images, orthogonal / '
        'tilted / row- and axis-permuted left-handed cells, cutoff 0.33-1.6 cell edges; "nearcut": arbitrary doubles '
        '(general, rotated, sheared cells), designed pairs at |d|^2 = c^2 (1 +- k band), k = 4..1e6, band = the derived '
        'rounding band of the case (about 1e-13..1e-8 relative); "crystal": sc / bcc / fcc supercells (conventional or '
        'sheared by whole lattice vectors, atom order shuffled, up to 400 atoms) on a dyadic grid, cutoff a multiple of '
        'the plane spacing or exactly a shell radius: every bin equally and maximally filled (own bin and all 13 stencil '
        'bins full at once), shells exactly at the cutoff; "narrowbin": a pair closer than the cutoff along one axis '
        'placed across an edge of the grid that a bin width a hair below the cutoff (its single-precision rounding, or '
        'c(1-1e-9..1e-6)) would have; "scale": sparse lists for 100001-103000 atoms (indices of 1-6 digits) loaded from '
        'text, dumped and re-loaded, and a whole 47^3..50^3 simple-cubic lattice through nlist with a closed-form oracle, '
        'then dump -> load; sparse lists for 1000001-1003000 atoms (seven-digit indices); lists with rows of 999 .. n-1 '
        'entries (hub atoms, 1003-2600 atoms) through the load path and a ball of 1002-1150 mutual neighbors + 4 isolated '
        'atoms through nlist (closed-form oracle), each dumped (onto an existing non-empty file) and re-loaded. '
        '"bigcut": cutoff >> cell — cells of every shape (orthogonal, tilted, sheared with tilt factors up to 1.5 edges, '
        'row-permuted / left-handed, rotated; every 4th on a dyadic grid), all 8 pbc settings, 2-9 atoms on the corners '
        '(the two ends of the longest body diagonal in half of the cases), a hair (1e-7..1e-4) inside them, at the centre, '
        'at random; cutoff uniform between two neighbouring cell measures (edges, face and body diagonals, Frobenius norm, '
        'sum of edges, widths, bounding-box extents and diagonal), or 1-3 longest body diagonals, or between two '
        'neighbouring values of the pair-distance spectrum, or the farthest pair +- 1e-6..5e-2. "elongated": cell >> '
        'cutoff along ONE Cartesian axis (x, y, z in turn): 1030-5000 bins (thorough / broken: up to 40000) along it, the '
        'other two cell dimensions 0.4-4 cutoffs, short vectors tilted along the long axis, rows permuted, long vector '
        'up or down the axis, all 8 pbc settings, 2-16 atoms in the last / first bins, in bins 2^m-2..2^m+2 for every 2^m '
        'below the bin count, at random, in pairs 0.5-1.2 cutoffs apart along the axis and across its periodic boundary. '
        '"chain": 1100-5000 atoms (thorough: up to 20000) along such a cell, one every 0.7-1.3 cutoffs, shuffled, decided '
        'with the sparse exact oracle. Every full search case is also built a second time with the same values as other '
        'python / numpy types (cutoff as numpy float64 / float32 / int / numpy int32 where exact, sizes as numpy int64 / '
        'int32, nlist(...) positionally), some with initialsize / deltasize up to 65537 / 100000, some after overwriting '
        'the array of the first result; the System handed in must be bitwise unchanged; every 3rd dyadic-grid case is '
        'repeated with all lengths multiplied by 2^k, |k| <= 480 (exact: same lists required); every 7th grid case sits '
        '1-3 x 2^10..2^30 away from the coordinate origin. '
        '"signed" (round 4): axis-aligned and LAMMPS-form cells with every sign pattern of the diagonal (a cell vector '
        'pointing DOWN its axis, origin on the upper face) x shape (diagonal / lower triangular with every zero pattern of '
        'the tilt factors / upper triangular / diagonal or tilted with the axes cyclically renamed) x pbc x float or dyadic '
        'grid, 2-28 atoms with pairs placed across every periodic face; and every 4th case of EVERY generator family is '
        'replaced by an equivalent description of the same system: mirrored through 1-3 coordinate planes (exact), Cartesian '
        'axes renamed, cell vectors listed in another order, spanned from the far face of a vector where that is exact; the '
        'clause "equivalent" requires the same lists for the re-described system (pairs in the tie band excepted, none on '
        'the grids); sequence operations box_flip / mirror do the same on one object. "thresholds" (round 4): lists of exactly '
        '1, 2, 3, 2^k-1 .. 2^k+2 (k = 7..16), 1000 k (+1), 4096 k (+1), 8192 k (+1) atoms through the load path with the listed '
        'indices on both sides of every power of two and at the very end, last atom isolated or not (the sizes up to 2^14 and '
        'around 2^15 / 2^16 in every run, three of the others in turn per seed, all of them thorough / after a failed '
        'obligation); simple-cubic lattices of 2^13, 2^14, 2^15 + 1024 atoms through nlist in every run and one of 47^3, '
        '32x32x64 = 2^16, 40x41x40, 2^15, 33x40x50, 32x64x33 in turn; "cloud": 27 x 152 atoms uniformly in a block of 3 x 3 x 3 '
        'bins (more than 2048 candidates in ONE distance call; 27 x 304: more than 4096, thorough / after a failed '
        'obligation), decided by numpy distances with exact integers inside 1e-9 of the cutoff. '
        'distinct = distinct canonical input line; non-trivial = at least one pair below the cutoff.')
ASSUMPTIONS = [
    'IEEE double evaluation of dmag2 < cutoff*cutoff agrees with the exact comparison except for pairs whose exact '
    'squared distance is within u(16 S/c + 8) (relative, u = 2^-53, S = max_j(2 max|p_j| + sum_k |b_kj|); derived in '
    '`rounding_band` from the operation count of dmag2_c) of cutoff^2; only such pairs are exempt, and only outside the '
    'dyadic-grid regimes (grid, fine, crystal: every product and sum is exact there, ties are compared exactly). '
    'The declared types this rests on (double everywhere) are a proof obligation: src_reals_double',
    'np.arange / np.digitize / 1.01*cutoff in floating point place an atom in another bin than the exact model only '
    'when it lies within the same relative bound (times the cutoff) of a bin edge or of the superbox boundary (the '
    'model flags these; 1e-9 is kept for the `outside` systems; for atoms inside the cell the final rows do not depend '
    'on the binning: theorem alg_complete)',
    'np.unique hands the occupied bins to the sweep in an order that is not modelled; theorem alg_order_irrelevant '
    'shows the rows do not depend on it',
    'np.empty garbage is arbitrary (model: an arbitrary function junk r k; theorem storage_refines is for all junk)',
    'text load: str.split() is modelled for blanks only, int() for plain digit strings (what dump writes)',
    'the periodic distance of the property is the one of C02: the shortest of the 27 candidates with shifts -1, 0, +1 '
    '(theorems and oracle use it). In strongly sheared cells a second-neighbour image can be nearer; such pairs are '
    'enumerated (all shifts inside the Cauchy-Schwarz radius) and counted in the evidence, no claim is made for them',
    'operations between two neighbor-list calls enter the object-level model as the assignment of the state read back '
    'from the real object (box, pbc, positions); how box_set(scale=True), wrap, scaled setters compute that state is '
    'C01/C05/C06',
]
TRUSTED = ['numpy arange/digitize/unique/vstack/hstack inside nlist.pyx (correspondence run)',
           'sparse oracle (chains): candidate pairs from a python dictionary of cells 1.000001 cutoffs wide holding every '
           'atom and image (float floor; cross-checked against the all-pairs oracle on every 16th small case), each '
           'candidate decided with exact integers',
           'statement templates of nlist / unique_rows2 / dmag2_c (text, comments and blank lines removed, indentation kept) and of '
           'NeighborList.load / __init__ (ast.unparse) in the translator: any other statement is a broken tie',
           'exact oracle: python int arithmetic on float.as_integer_ratio inputs',
           'regular-expression template of the two growth blocks of nlist.pyx in the translator (any other shape of '
           'these blocks is reported as a broken tie, never silently accepted)',
           'round 5: nlist.pyx made readable for python ast (typed parameters -> names, `cdef T name = e` -> `name = e`, other '
           'cdef lines -> pass) and the walk over that syntax tree that writes Generated/NlistSource.lean (statements found by '
           'what they assign / test and by the loops around them; anything else is a TranslationError); numpy arange (length = '
           'ceil((stop - start) / step)) and digitize (number of edges <= x) as specified in the model',
           'translator of the declarations / scalar expressions / tests of nlist.pyx and dmag.pyx (regular expressions on '
           'comment-stripped lines) and of NeighborList.dump / build / __getitem__ (python ast); os.fork isolation of the '
           'phases that call the compiled code']

CORPUS = cm.VERIF / 'corpus' / 'C03'
TOL = '1/1000000000'
ALL_PBC = [(a, b, c) for a in (True, False) for b in (True, False) for c in (True, False)]


def _np():
    import numpy as np
    return np


# ----------------------------------------------------------------------------------------
# cases
# ----------------------------------------------------------------------------------------
def _case(vects, origin, pos, pbc, cutoff, regime, init=None, delta=None):
    np = _np()
    return {'vects': np.asarray(vects, dtype=float).tolist(), 'origin': [float(x) for x in origin],
            'pos': np.asarray(pos, dtype=float).reshape(-1, 3).tolist(), 'pbc': [bool(p) for p in pbc],
            'cutoff': float(cutoff), 'regime': regime, 'init': init, 'delta': delta}


def _widths(vects):
    """perpendicular widths of the cell: 1/|reciprocal vector i|."""
    np = _np()
    inv = np.linalg.inv(np.asarray(vects, dtype=float))
    return [1.0 / math.sqrt(float((inv[:, i] ** 2).sum())) for i in range(3)]


def _rand_cell(rng, kind):
    np = _np()
    L = [rng.uniform(2.0, 9.0) for _ in range(3)]
    v = np.diag(L)
    if kind in ('tilt', 'gen'):
        v[1, 0] = rng.uniform(-0.5, 0.5) * L[0]
        v[2, 0] = rng.uniform(-0.5, 0.5) * L[0]
        v[2, 1] = rng.uniform(-0.5, 0.5) * L[1]
    if kind == 'gen':
        # random rotation (QR of a random matrix), sometimes left-handed / rows permuted
        m = np.array([[rng.gauss(0, 1) for _ in range(3)] for _ in range(3)])
        q, _ = np.linalg.qr(m)
        v = v @ q
        if rng.random() < 0.5:
            v[rng.randrange(3)] *= -1.0
    return v


def _limit_atoms(rng, r, pbc, nmax=60):
    """number of atoms so that the exact model stays fast: the number of compared pairs grows like
    n^2 * (images per bin neighbourhood)."""
    per = sum(1 for p in pbc if p)
    copies = (1.0 + min(2.0, 2.02 * r)) ** per if r > 0.34 else 1.0 + 0.5 * per
    cap = int(max(2, min(nmax, 70.0 / (copies * max(r, 0.25) ** 1.5))))
    return rng.randint(1, cap)


def gen_general(rng, it):
    np = _np()
    kind = ('orth', 'tilt', 'gen')[it % 3]
    v = _rand_cell(rng, kind)
    origin = [rng.uniform(-5, 5) for _ in range(3)] if it % 7 else [0.0, 0.0, 0.0]
    pbc = ALL_PBC[(it // 3) % 8]
    w = min(_widths(v))
    r = rng.choice([rng.uniform(0.1, 0.35), rng.uniform(0.35, 0.8), rng.uniform(0.8, 1.5)])
    cutoff = r * w
    n = _limit_atoms(rng, r, pbc)
    style = rng.choice(['uniform', 'uniform', 'cluster', 'faces', 'dense'])
    if style == 'cluster':
        cs = [[rng.random() for _ in range(3)] for _ in range(rng.randint(1, 3))]
        rel = []
        for _ in range(n):
            c = rng.choice(cs)
            rel.append([(c[k] + rng.gauss(0, 0.06)) % 1.0 for k in range(3)])
    elif style == 'faces':
        rel = [[rng.choice([0.0, 1.0, rng.random(), rng.random()]) for _ in range(3)] for _ in range(n)]
    else:
        rel = [[rng.random() for _ in range(3)] for _ in range(n)]
    pos = np.array(rel).reshape(-1, 3) @ v + np.array(origin)
    return _case(v, origin, pos, pbc, cutoff, 'float', rng.randint(1, 25), rng.randint(1, 25))


def _float_edges(v, origin, cutoff):
    """the bin edges exactly as the implementation computes them (same float operations)."""
    np = _np()
    v = np.asarray(v, dtype=float)
    out = []
    for j in range(3):
        lo = hi = origin[j]
        for z in range(2):
            for y in range(2):
                for x in range(2):
                    c = origin[j] + x * v[0, j] + y * v[1, j] + z * v[2, j]
                    lo = min(lo, c)
                    hi = max(hi, c)
        lo -= 1.01 * cutoff
        hi += 1.01 * cutoff
        out.append(np.arange(lo, hi + cutoff, cutoff))
    return out


def gen_edges(rng, it):
    """orthogonal cell, some coordinates exactly on (or one ulp next to) a float bin edge."""
    np = _np()
    L = [rng.uniform(2.0, 6.0) for _ in range(3)]
    v = np.diag(L)
    origin = [rng.uniform(-3, 3) for _ in range(3)]
    pbc = ALL_PBC[it % 8]
    r = rng.uniform(0.2, 0.9)
    cutoff = r * min(L)
    n = _limit_atoms(rng, r, pbc, 30)
    ed = _float_edges(v, origin, cutoff)
    pos = []
    for _ in range(n):
        p = []
        for j in range(3):
            inside = [e for e in ed[j].tolist() if origin[j] <= e <= origin[j] + L[j]]
            if inside and rng.random() < 0.5:
                e = rng.choice(inside)
                e = rng.choice([e, e, math.nextafter(e, math.inf), math.nextafter(e, -math.inf)])
                p.append(min(max(e, origin[j]), origin[j] + L[j]))
            else:
                p.append(origin[j] + rng.random() * L[j])
        pos.append(p)
    return _case(v, origin, pos, pbc, cutoff, 'float', rng.randint(1, 25), rng.randint(1, 25))


def gen_grid(rng, it):
    """dyadic grid: every product and sum of the implementation is exact in double."""
    np = _np()
    q = 4
    L = [rng.randint(6, 16) / q for _ in range(3)]
    v = np.diag(L)
    if it % 2:
        v[1, 0] = rng.randint(-4, 4) / q
        v[2, 0] = rng.randint(-4, 4) / q
        v[2, 1] = rng.randint(-4, 4) / q
    if it % 6 == 5:
        v = v[[1, 2, 0]] * np.array([[1.0], [-1.0], [1.0]])       # permuted, left-handed, still dyadic
    origin = [rng.randint(-8, 8) / q for _ in range(3)]
    if it % 7 == 6 and it % 5 not in (3, 4):
        # a cell far from the coordinate origin (still exact: 2^30 + small multiples of 1/8 fit in a double)
        origin = [o + rng.choice([-1, 1]) * float(2 ** rng.choice([10, 20, 30])) * rng.randint(1, 3) for o in origin]
    pbc = ALL_PBC[(it // 2) % 8]
    cutoff = rng.choice([0.5, 0.75, 1.0, 1.25, 1.5, 1.75, 2.0, 2.5, 3.0, 3.75])
    w = min(_widths(v))
    r = cutoff / w
    n = _limit_atoms(rng, r, pbc, 40)
    rel = [[rng.randint(0, 8) / 8 for _ in range(3)] for _ in range(n)]       # faces included (0 and 1)
    pos = np.array(rel).reshape(-1, 3) @ v + np.array(origin)
    case = _case(v, origin, pos, pbc, cutoff, 'grid', rng.randint(1, 25), rng.randint(1, 25))
    if it % 5 == 3:
        case['dtype'] = 'float32'                     # multiples of 1/32 below 2^7: exact in float32
    elif it % 5 == 4:
        # integer cell, integer coordinates, stored as int64
        Li = [rng.randint(2, 5) for _ in range(3)]
        vi = np.diag(Li).astype(float)
        if it % 2:
            vi[1, 0] = rng.randint(-2, 2)
            vi[2, 1] = rng.randint(-2, 2)
        oi = [float(rng.randint(-3, 3)) for _ in range(3)]
        rel = [[rng.randint(0, Li[k]) for k in range(3)] for _ in range(n)]         # faces included
        pts = [[r[k] + oi[k] for k in range(3)] for r in rel]
        if it % 2:
            # keep the points inside the tilted cell: use whole cell-vector fractions that stay integral
            pts = [(np.array([rng.choice([0, 1]) for _ in range(3)]) @ vi + np.array(oi)).tolist() for _ in range(n)]
        case = _case(vi, oi, pts, pbc, rng.choice([1.0, 1.5, 2.0, 2.5]), 'grid', rng.randint(1, 25), rng.randint(1, 25))
        nonneg = all(x >= 0 for p in pts for x in p)
        case['dtype'] = rng.choice(['int64', 'int32', 'uint8', 'uint16'] if nonneg else ['int64', 'int32', 'int16', 'int8'])
    return case


def gen_hunt(rng, it):
    """2-4 atoms; atom u just below the upper face of axis a, atom v near the lower face, separated (through the
    periodic image along a) by less than the cutoff with components of mixed sign on a second axis."""
    np = _np()
    if it % 3 == 2:
        return _gen_corner(rng, it)
    c = rng.uniform(0.5, 3.0)
    a = rng.choice([2, 1, 0])
    others = [k for k in range(3) if k != a]
    b = rng.choice(others)
    t = 3 - a - b
    D = [0.0] * 3
    D[a] = rng.uniform(0.15, 0.85) * c
    D[b] = -rng.uniform(0.2, 0.85) * c * rng.choice([1, 1, 1, -1])
    D[t] = rng.uniform(-0.3, 0.3) * c
    nrm = math.sqrt(sum(x * x for x in D))
    if nrm >= 0.98 * c:
        f = rng.uniform(0.6, 0.97) * c / nrm
        D = [x * f for x in D]
    L = [rng.uniform(1.1, 3.2) * c for _ in range(3)]
    u = [0.0] * 3
    w = [0.0] * 3
    u[a] = L[a] - rng.uniform(0, 0.0101) * c if rng.random() < 0.8 else rng.uniform(L[a] - D[a], L[a])
    w[a] = max(u[a] + D[a] - L[a], 0.0)
    for k in (b, t):
        lo = max(0.0, -D[k])
        hi = min(L[k], L[k] - D[k])
        u[k] = rng.uniform(lo, hi)
        w[k] = min(max(u[k] + D[k], 0.0), L[k])
    rel = [[u[k] / L[k] for k in range(3)], [w[k] / L[k] for k in range(3)]]
    if rng.random() < 0.5:
        rel.reverse()
    for _ in range(rng.choice([0, 0, 0, 1, 2])):
        rel.insert(rng.randint(0, len(rel)), [rng.random() for _ in range(3)])
    v = np.diag(L)
    if rng.random() < 0.4:
        v[1, 0] = rng.uniform(-0.3, 0.3) * L[0]
        v[2, 0] = rng.uniform(-0.3, 0.3) * L[0]
        v[2, 1] = rng.uniform(-0.3, 0.3) * L[1]
    origin = [rng.uniform(-3, 3) for _ in range(3)]
    pbc = [True, True, True]
    if rng.random() < 0.15:
        pbc[rng.choice([b, t])] = False
    pos = np.clip(np.array(rel), 0.0, 1.0) @ v + np.array(origin)
    return _case(v, origin, pos, pbc, c, 'float', rng.randint(1, 4), rng.randint(1, 3))


def _gen_corner(rng, it):
    """2-4 atoms; a pair that is close only through an image shifted along TWO or THREE cell vectors at once (across
    an edge or a corner of the cell), with shifts of equal or mixed sign and sizeable components on every crossed
    axis: in both representations (real u + ghost of v, real v + ghost of u) the ghost lies outside the cell on
    two or three sides, beyond the lower faces on some axes and the upper faces on others."""
    np = _np()
    c = rng.uniform(0.5, 3.0)
    ncross = rng.choice([2, 2, 3])
    axes = rng.sample(range(3), ncross)
    D = [rng.uniform(-0.3, 0.3) * c for _ in range(3)]
    for k in axes:
        D[k] = rng.uniform(0.3, 0.8) * c * rng.choice([1, -1])
    nrm = math.sqrt(sum(x * x for x in D))
    if nrm >= 0.98 * c:
        f = rng.uniform(0.75, 0.97) * c / nrm
        D = [x * f for x in D]
    L = [rng.uniform(1.1, 3.2) * c for _ in range(3)]
    u = [0.0] * 3
    w = [0.0] * 3
    for k in range(3):
        if k in axes:
            e = rng.uniform(0.0, abs(D[k]))          # how far u is from the face that the separation crosses
            if D[k] > 0:
                u[k] = L[k] - e
                w[k] = u[k] + D[k] - L[k]
            else:
                u[k] = e
                w[k] = u[k] + D[k] + L[k]
        else:
            lo = max(0.0, -D[k])
            hi = min(L[k], L[k] - D[k])
            u[k] = rng.uniform(lo, hi)
            w[k] = u[k] + D[k]
    rel = [[min(max(u[k] / L[k], 0.0), 1.0) for k in range(3)], [min(max(w[k] / L[k], 0.0), 1.0) for k in range(3)]]
    if rng.random() < 0.5:
        rel.reverse()
    for _ in range(rng.choice([0, 0, 0, 1, 2])):
        rel.insert(rng.randint(0, len(rel)), [rng.random() for _ in range(3)])
    v = np.diag(L)
    if rng.random() < 0.4:
        v[1, 0] = rng.uniform(-0.3, 0.3) * L[0]
        v[2, 0] = rng.uniform(-0.3, 0.3) * L[0]
        v[2, 1] = rng.uniform(-0.3, 0.3) * L[1]
    origin = [rng.uniform(-3, 3) for _ in range(3)]
    pbc = [True, True, True]
    if rng.random() < 0.1:
        free = [k for k in range(3) if k not in axes]
        if free:
            pbc[free[0]] = False
    pos = np.array(rel) @ v + np.array(origin)
    return _case(v, origin, pos, pbc, c, 'float', rng.randint(1, 4), rng.randint(1, 3))


def gen_outside(rng, it):
    """atoms up to half a cutoff outside the cell (not covered by the property; the model must still agree)."""
    np = _np()
    case = gen_general(rng, it)
    v = np.array(case['vects'])
    n = len(case['pos'])
    pos = np.array(case['pos']).reshape(-1, 3)
    for i in range(n):
        if rng.random() < 0.5:
            pos[i] += np.array([rng.uniform(-0.5, 0.5) * case['cutoff'] for _ in range(3)])
    case['pos'] = pos.tolist()
    case['regime'] = 'outside'
    return case


def _inside_rel(rel):
    """relative coordinates clipped into the closed cell."""
    return [[min(max(float(x), 0.0), 1.0) for x in r] for r in rel]


def gen_dense(rng, it):
    """more than 40 real + ghost atoms in ONE cutoff-sized bin (the bin table, 41 slots at the start, has to grow,
    often several times) and coordination numbers far above initialsize (the per-atom rows grow many times)."""
    np = _np()
    mode = it % 5
    kind = ('orth', 'tilt', 'gen')[(it // 5) % 3]
    pbc = ALL_PBC[(it // 2) % 8]
    init, delta = rng.choice([(1, 1), (2, 3), (5, 3), (20, 10), (rng.randint(1, 25), rng.randint(1, 25))])
    origin = [rng.uniform(-5, 5) for _ in range(3)] if it % 4 else [0.0, 0.0, 0.0]
    if mode in (0, 1, 2):
        # one to three clusters (each narrower than a bin) in a cell much wider than the cutoff
        v = _rand_cell(rng, kind) * rng.uniform(1.5, 2.5)
        w = min(_widths(v))
        cutoff = rng.uniform(0.13, 0.3) * w
        inv = np.linalg.inv(v)
        ncl = 1 if mode == 0 else (2 if all(pbc) else rng.randint(2, 3))
        sizes = [rng.randint(55, 95)] if mode == 0 else [rng.randint(28, 45) for _ in range(ncl)]
        first = [rng.choice([0.02, 0.5, 0.97, rng.random()]) for _ in range(3)]
        rel = []
        for c in range(ncl):
            if c == 0:
                cen = np.array(first) @ v
            else:       # next cluster about one cutoff away: neighbouring bin, pairs across the bin edge
                d = np.array([rng.gauss(0, 1) for _ in range(3)])
                cen = np.array(first) @ v + d / np.linalg.norm(d) * cutoff * rng.uniform(0.6, 1.1)
            spread = rng.uniform(0.25, 0.95) * cutoff
            for _ in range(sizes[c]):
                p = cen + np.array([rng.uniform(-0.5, 0.5) * spread for _ in range(3)])
                rel.append((p @ inv).tolist())
        rel = _inside_rel(rel)
        rng.shuffle(rel)
        pos = np.array(rel) @ v + np.array(origin)
        return _case(v, origin, pos, pbc, cutoff, 'float', init, delta)
    if mode == 3:
        # small periodic cell, cutoff around / above the cell widths: the ghosts fill the bins
        base = rng.uniform(1.5, 4.0)
        v = np.diag([base * rng.uniform(0.85, 1.15) for _ in range(3)])
        if kind != 'orth':
            v[1, 0] = rng.uniform(-0.3, 0.3) * base
            v[2, 1] = rng.uniform(-0.3, 0.3) * base
        if kind == 'gen':
            v = v[[2, 0, 1]] * np.array([[1.0], [-1.0], [1.0]])
        w = min(_widths(v))
        cutoff = rng.choice([rng.uniform(0.9, 1.5), rng.uniform(1.5, 2.4)]) * w
        pbc = rng.choice([(True, True, True), (True, True, True), (True, True, False), (False, True, True),
                          (True, False, True)])
        n = rng.randint(16, 30) if cutoff < 1.5 * w else rng.randint(9, 20)
        rel = [[rng.random() for _ in range(3)] for _ in range(n)]
        pos = np.array(rel) @ v + np.array(origin)
        return _case(v, origin, pos, pbc, cutoff, 'float', init, delta)
    # mode 4: dyadic grid, 45-80 atoms (coincident ones included) in a 2 x 2 x 2 corner region, cutoff 2.5 / 3:
    # ties decided exactly
    q = 4
    L = [rng.randint(24, 40) / q for _ in range(3)]
    v = np.diag(L)
    if it % 2:
        v[1, 0] = rng.randint(-8, 8) / q
        v[2, 1] = rng.randint(-8, 8) / q
    origin = [rng.randint(-8, 8) / q for _ in range(3)]
    base = [rng.choice([0.0, 1.0, 3.0]) for _ in range(3)]
    n = rng.randint(55, 100)
    pts = [[base[k] + rng.randint(0, 8) / 4 for k in range(3)] for _ in range(n)]
    pos = np.array(pts) + np.array(origin) + (0.25 * v[1] + 0.25 * v[2]) * (it % 2)
    return _case(v, origin, pos, pbc, rng.choice([2.5, 3.0]), 'grid', init, delta)


def gen_crystal(rng, it, nmax=400):
    """Perfect crystals (sc / bcc / fcc supercells, conventional or sheared by whole lattice vectors, atom order
    shuffled), everything on a dyadic grid (unit = a/4), cutoff a multiple of the plane spacing or exactly a shell
    radius (a/2 .. 2a): with periodic boundaries EVERY cutoff-sized bin of the superbox holds the same, maximal number
    of atoms + ghosts (own bin and all 13 stencil bins full at once: the longest possible compare list), shells sit
    exactly at the cutoff (ties decided exactly), coordination numbers are uniform."""
    np = _np()
    kind = ('sc', 'bcc', 'fcc')[it % 3]
    basis = {'sc': [(0, 0, 0)], 'bcc': [(0, 0, 0), (2, 2, 2)],
             'fcc': [(0, 0, 0), (0, 2, 2), (2, 0, 2), (2, 2, 0)]}[kind]
    while True:
        reps = [rng.randint(1, 6) for _ in range(3)]
        if len(basis) * reps[0] * reps[1] * reps[2] <= nmax:
            break
    V = [[4 * reps[0], 0, 0], [0, 4 * reps[1], 0], [0, 0, 4 * reps[2]]]
    if it % 2:
        V[1][0] = 4 * rng.randint(-reps[0], reps[0])
        V[2][0] = 4 * rng.randint(-reps[0], reps[0])
        V[2][1] = 4 * rng.randint(-reps[1], reps[1])
    if it % 6 == 5:
        V = [V[2], [-x for x in V[0]], V[1]]
    o = [rng.randint(-12, 12) for _ in range(3)]
    shift = rng.choice([(0, 0, 0), (1, 1, 1), (1, 0, 2)])          # (0,0,0): atoms on the cell faces
    pts = []
    for i in range(reps[0]):
        for j in range(reps[1]):
            for k in range(reps[2]):
                for b in basis:
                    p = [o[0] + 4 * i + b[0] + shift[0], o[1] + 4 * j + b[1] + shift[1], o[2] + 4 * k + b[2] + shift[2]]
                    pts.append(tuple(_reduce_into_cell(p, o, V, [True, True, True])))
    assert len(set(pts)) == len(pts)
    pts = [list(p) for p in pts]
    rng.shuffle(pts)
    pbc = (True, True, True) if it % 4 else ALL_PBC[(it // 4) % 8]
    cu = rng.choice({'sc': [4, 4, 8, 6, 3, 5], 'bcc': [2, 4, 4, 6, 8, 3], 'fcc': [2, 4, 4, 6, 8, 3]}[kind])
    unit = rng.choice([0.25, 0.5, 1.0, 0.125])
    sc = lambda x: x * unit  # noqa  (exact: small integers times a power of two)
    case = _case([[sc(x) for x in row] for row in V], [sc(x) for x in o], [[sc(x) for x in p] for p in pts], pbc,
                 sc(cu), 'grid', rng.choice([1, 2, 6, 20]), rng.choice([1, 3, 10]))
    case['crystal'] = kind
    return case


def _shortest_combo(v, pbc):
    """length of the shortest non-zero lattice vector among the shifts -1, 0, 1 along the periodic directions."""
    np = _np()
    best = None
    rs = [(-1, 0, 1) if p else (0,) for p in pbc]
    for x in rs[0]:
        for y in rs[1]:
            for z in rs[2]:
                if (x, y, z) != (0, 0, 0):
                    m = float(np.linalg.norm(x * v[0] + y * v[1] + z * v[2]))
                    best = m if best is None else min(best, m)
    return best


def gen_shear(rng, it):
    """strongly sheared / non-reduced / flat cells (tilt factors far beyond half a cell edge, so that combinations
    such as b - a or c - b + a are shorter than every cell edge), cutoffs around half the shortest lattice vector."""
    np = _np()
    mode = it % 4
    grid = mode == 3
    q = 4
    if grid:
        L = [rng.randint(6, 20) / q for _ in range(3)]
    else:
        L = [rng.uniform(2.0, 9.0) for _ in range(3)]
        if rng.random() < 0.4:
            L[rng.randrange(3)] *= rng.choice([0.35, 0.5, 2.5])           # flat or needle-like
    v = np.diag(L)
    if mode == 0 or grid:
        # LAMMPS-form cell with large tilt factors
        def tilt(length):
            f = rng.choice([rng.uniform(0.5, 1.0), rng.uniform(1.0, 2.5), rng.uniform(0.0, 0.5)]) * rng.choice([1, -1])
            return round(f * length * q) / q if grid else f * length
        v[1, 0] = tilt(L[0])
        v[2, 0] = tilt(L[0]) if rng.random() < 0.7 else 0.0
        v[2, 1] = tilt(L[1]) if rng.random() < 0.7 else 0.0
    else:
        # mildly tilted cell re-expressed in a non-reduced basis: rows replaced by integer combinations
        v[1, 0] = rng.uniform(-0.5, 0.5) * L[0]
        v[2, 0] = rng.uniform(-0.5, 0.5) * L[0]
        v[2, 1] = rng.uniform(-0.5, 0.5) * L[1]
        ks = [rng.choice([-2, -1, -1, 1, 1, 2, 0]) for _ in range(3)]
        u = np.array([[1, 0, 0], [ks[0], 1, 0], [ks[1], ks[2], 1]], dtype=float)
        perm = rng.sample(range(3), 3)
        u = u[perm][:, perm] if rng.random() < 0.5 else u
        v = u @ v
        if mode == 2:
            m = np.array([[rng.gauss(0, 1) for _ in range(3)] for _ in range(3)])
            qq, _ = np.linalg.qr(m)
            v = v @ qq
            if rng.random() < 0.5:
                v[rng.randrange(3)] *= -1.0
    origin = [rng.randint(-8, 8) / q for _ in range(3)] if grid else [rng.uniform(-5, 5) for _ in range(3)]
    pbc = ALL_PBC[(it // 4) % 8] if it % 3 == 0 else rng.choice([(True, True, True), (True, True, False),
                                                                  (True, False, True), (False, True, True)])
    s = _shortest_combo(v, pbc) or min(L)
    if grid:
        cands = [c for c in (0.5, 0.75, 1.0, 1.25, 1.5, 1.75, 2.0, 2.5, 3.0) if 0.25 * s <= c <= 1.2 * s]
        cutoff = rng.choice(cands or [1.0])
    else:
        cutoff = rng.choice([rng.uniform(0.3, 0.55), rng.uniform(0.45, 0.8), rng.uniform(0.8, 1.2)]) * s
    # keep the exact model affordable: bins ~ extent / cutoff per axis, compared pairs ~ n^2 * images
    ext = [float(np.abs(v[:, j]).sum()) + 2.02 * cutoff for j in range(3)]
    while (ext[0] / cutoff + 1) * (ext[1] / cutoff + 1) * (ext[2] / cutoff + 1) > 40000:
        cutoff *= 1.25 if not grid else 2.0
        ext = [float(np.abs(v[:, j]).sum()) + 2.02 * cutoff for j in range(3)]
    r = cutoff / min(_widths(v))
    n = rng.randint(2, 12) if r > 1.2 else rng.randint(3, 36)
    if grid:
        rel = [[rng.randint(0, 8) / 8 for _ in range(3)] for _ in range(n)]
    else:
        rel = [[rng.choice([rng.random(), rng.random(), rng.random(), 0.0]) for _ in range(3)] for _ in range(n)]
    pos = np.array(rel).reshape(-1, 3) @ v + np.array(origin)
    return _case(v, origin, pos, pbc, cutoff, 'grid' if grid else 'float', rng.randint(1, 25), rng.randint(1, 25))


# ----------------------------------------------------------------------------------------
# pairs within a hair of the cutoff
# ----------------------------------------------------------------------------------------
def _adj3(V):
    """adjugate and determinant of an integer 3x3 matrix (rows = cell vectors): V^-1 = adj / det."""
    (a, b, c), (d, e, f), (g, h, i) = V
    adj = [[e * i - f * h, c * h - b * i, b * f - c * e],
           [f * g - d * i, a * i - c * g, c * d - a * f],
           [d * h - e * g, b * g - a * h, a * e - b * d]]
    det = a * (e * i - f * h) - b * (d * i - f * g) + c * (d * h - e * g)
    return adj, det


def _reduce_into_cell(p, o, V, pbc):
    """integer point p moved by a lattice vector into the cell (relative coordinates in [0, 1), exact integer /
    Fraction arithmetic); None when that needs a shift along a non-periodic direction."""
    adj, det = _adj3(V)
    q = [p[k] - o[k] for k in range(3)]
    n = []
    for i in range(3):
        rel = Fraction(sum(q[j] * adj[j][i] for j in range(3)), det)
        ni = math.floor(rel)
        if not pbc[i]:
            if rel == 1:
                ni = 0
            if ni != 0:
                return None
        n.append(ni)
    return [p[k] - sum(n[i] * V[i][k] for i in range(3)) for k in range(3)]


def _four_square_cutoff(rng):
    """(C, (a, b, c)) with a^2 + b^2 + c^2 = C^2 exactly (Euler's four-square identity), C odd in [2^24, 2^25)."""
    while True:
        m, n, p = (rng.randrange(0, 3300) for _ in range(3))
        s3 = m * m + n * n + p * p
        lo, hi = max(0, 2 ** 24 - s3), 2 ** 25 - 1 - s3
        if hi < 0:
            continue
        ql, qh = math.isqrt(lo) + 1, math.isqrt(hi)
        if ql > qh:
            continue
        q = rng.randrange(ql, qh + 1)
        C = s3 + q * q
        if C % 2 == 0 or not (2 ** 24 <= C < 2 ** 25):
            continue
        abc = (m * m + n * n - p * p - q * q, 2 * (m * q + n * p), 2 * (n * q - m * p))
        assert abc[0] ** 2 + abc[1] ** 2 + abc[2] ** 2 == C * C
        return C, abc


def gen_fine(rng, it):
    """Exact regime for cutoffs that single precision cannot hold.  Everything (cell, origin, positions, cutoff) is an
    integer multiple of unit = 2^-(24-e); the cutoff is C * unit with C ODD in [2^24, 2^25): 25 significant bits, exact
    in double, half-way between two single-precision numbers.  Double evaluation of the distance test is exact here:
    a candidate separation with all |d_j| < 2^(e+1) has squares that are multiples of unit^2 below 2^(2e+2), their sum
    needs at most 52 bits; a candidate with some |d_j| >= 2^(e+1) is >= 2^(2e+2) > cutoff^2 exactly and (rounding is
    monotone, 2^(2e+2) is representable) also as computed; cutoff*cutoff has 50 bits.  So ties and pairs ONE unit
    (2^-25 .. 2^-22 relative) on either side of the cutoff are decided exactly by the oracle and must be decided the
    same way by the implementation.  Designed pairs: along an axis at C + k units; exact ties in general directions
    (four-square identity) and one unit off them; general directions with |D|^2 within 2|D_z| units^2 of C^2; through
    periodic images; orthogonal / tilted / permuted left-handed cells, all pbc settings, cutoff 0.33-1.6 cell edges."""
    np = _np()
    e = rng.choice([-1, 0, 1, 2])
    g = 24 - e
    tie_vec = None
    if rng.random() < 0.4:
        C, tie_vec = _four_square_cutoff(rng)
    else:
        C = rng.randrange(2 ** 24, 2 ** 25) | 1
    L = [rng.randrange(int(0.62 * C), int(3.0 * C)) for _ in range(3)]
    V = [[L[0], 0, 0], [0, L[1], 0], [0, 0, L[2]]]
    if it % 3:
        V[1][0] = rng.randrange(-L[0] // 2, L[0] // 2 + 1)
        V[2][0] = rng.randrange(-L[0] // 2, L[0] // 2 + 1)
        V[2][1] = rng.randrange(-L[1] // 2, L[1] // 2 + 1)
    if it % 3 == 2:
        perm = rng.sample(range(3), 3)
        V = [V[k] for k in perm]
        if rng.random() < 0.6:
            r = rng.randrange(3)
            V[r] = [-x for x in V[r]]
        if rng.random() < 0.5:      # axes permuted as well: a cell that is not lower triangular in any row order
            cp = rng.sample(range(3), 3)
            V = [[row[k] for k in cp] for row in V]
    o = [rng.randrange(-2 * C, 2 * C) for _ in range(3)]
    # (it // 4) % 8 with it % 4 == 0 runs through all 8 settings; (it // 3) % 8 never gave (T,F,F) / (F,F,F) there
    pbc = list(ALL_PBC[(it // 4) % 8]) if it % 4 == 0 else [True, True, True]

    def inside_point():
        rel = [rng.choice([rng.random(), rng.random(), rng.random(), 0.0]) for _ in range(3)]
        p = [o[k] + int(sum(rel[i] * V[i][k] for i in range(3))) for k in range(3)]
        return _reduce_into_cell(p, o, V, [True, True, True])

    def offset():
        kind = rng.choice(['axis', 'near', 'near', 'tie'] if tie_vec else ['axis', 'near', 'near'])
        if kind == 'axis':
            D = [0, 0, 0]
            D[rng.randrange(3)] = (C + rng.choice([0, 0, -1, 1, -1, 1, -2, 2, 3, -5])) * rng.choice([1, -1])
            return D
        if kind == 'tie':
            D = [x * rng.choice([1, -1]) for x in tie_vec]
            rng.shuffle(D)
            if rng.random() < 0.6:
                D[rng.randrange(3)] += rng.choice([1, -1])
            return D
        while True:
            d = [rng.gauss(0, 1) for _ in range(3)]
            nrm = math.sqrt(sum(x * x for x in d))
            a, b = int(C * d[0] / nrm), int(C * d[1] / nrm)
            rem = C * C - a * a - b * b
            if rem > 0:
                D = [a, b, (math.isqrt(rem) + rng.choice([0, 1])) * rng.choice([1, -1])]
                rng.shuffle(D)
                return D

    pts = []
    for _ in range(rng.choice([1, 1, 2, 3])):
        for _try in range(20):
            u = inside_point()
            D = offset()
            w = _reduce_into_cell([u[k] + D[k] for k in range(3)], o, V, pbc)
            if w is not None:
                pair = [u, w]
                rng.shuffle(pair)
                pts.extend(pair)
                break
    for _ in range(rng.choice([0, 0, 1, 2, 4])):
        pts.insert(rng.randint(0, len(pts)), inside_point())
    if not pts:
        pts = [inside_point()]
    sc = lambda x: math.ldexp(x, -g)  # noqa  (exact)
    case = _case([[sc(x) for x in row] for row in V], [sc(x) for x in o], [[sc(x) for x in p] for p in pts], pbc,
                 sc(C), 'grid', rng.randint(1, 4), rng.randint(1, 3))
    case['fine'] = True
    return case


def gen_nearcut(rng, it):
    """Float regime, arbitrary doubles: general (tilted, rotated, left-handed, sheared) cells, random cutoff; designed
    pairs at |d|^2 = cutoff^2 (1 + s k band) with `band` the derived `rounding_band` of the case, k from 4 to 1e6 and
    s = +-1 — i.e. 1e-13 .. 1e-8 relative, far inside what a single-precision cutoff / cutoff^2, a tolerance or a
    rounded comparison would blur, outside what double rounding can — directly and through periodic images."""
    np = _np()
    if it % 4 == 3:
        base = gen_shear(rng, 4 * rng.randrange(50) + rng.choice([0, 1, 2]))
        v = np.array(base['vects'])
        origin = base['origin']
        pbc = base['pbc']
        cutoff = base['cutoff']
    else:
        kind = ('orth', 'tilt', 'gen')[it % 3]
        v = _rand_cell(rng, kind)
        origin = [rng.uniform(-5, 5) for _ in range(3)]
        pbc = ALL_PBC[(it // 3) % 8] if it % 2 else (True, True, True)
        cutoff = rng.choice([rng.uniform(0.2, 0.5), rng.uniform(0.5, 1.0), rng.uniform(1.0, 1.4)]) * min(_widths(v))
    o = np.array(origin)
    inv = np.linalg.inv(v)
    proto = _case(v, origin, [[abs(x) for x in (o + np.abs(v).sum(axis=0)).tolist()]], pbc, cutoff, 'float')
    band = float(rounding_band(proto))
    pts = []
    for _ in range(rng.choice([1, 2, 2, 3])):
        u = np.array([rng.random() for _ in range(3)]) @ v + o
        d = np.array([rng.gauss(0, 1) for _ in range(3)])
        if rng.random() < 0.25:
            d = np.eye(3)[rng.randrange(3)] * rng.choice([1.0, -1.0])
        d /= np.linalg.norm(d)
        k = rng.choice([4.0, 16.0, 100.0, 1e3, 1e4, 1e5, 1e6])
        delta = min(k * band, 3e-8) * rng.choice([1.0, -1.0])
        w = u + d * (cutoff * math.sqrt(1.0 + delta))
        rel = (w - o) @ inv
        n = np.floor(rel)
        n = np.where(np.array(pbc), n, 0.0)
        w = w - n @ v
        relw = (w - o) @ inv
        if ((relw < 0.0) | (relw > 1.0)).any():
            continue            # would leave the cell along a non-periodic direction
        pair = [u.tolist(), w.tolist()]
        rng.shuffle(pair)
        pts.extend(pair)
    for _ in range(rng.choice([0, 1, 3, 6])):
        pts.insert(rng.randint(0, len(pts)), (np.array([rng.random() for _ in range(3)]) @ v + o).tolist())
    if not pts:
        pts = [(np.array([0.5, 0.5, 0.5]) @ v + o).tolist()]
    return _case(v, origin, pts, pbc, cutoff, 'float', rng.randint(1, 6), rng.randint(1, 4))


def _gen_crystal_small(rng, it):
    """crystals the exact model can afford: the cost grows with (atoms + ghosts) x (bin occupancy)."""
    while True:
        case = gen_crystal(rng, it, nmax=64)
        w = min(_widths(case['vects']))
        if case['cutoff'] <= 1.01 * w or len(case['pos']) <= 16:
            return case


def gen_narrowbin(rng, it):
    """Pairs that only a bin width of exactly the cutoff keeps in adjacent bins (hypothesis of `adjacent_bins`): were
    the bin width w' a hair below the cutoff c (single-precision rounding of c, or c (1 - 1e-9 .. 1e-6)), an atom u
    inside (e' - (s - w'), e') below an edge e' = lo + m w' of that hypothetical grid and an atom v = u + s along the axis
    with w' < s < c would sit two bins apart and never be compared.  For the real grid nothing is special about them:
    s < c, the pair must be listed.  Orthogonal cell, pair in the interior (no image can rescue it), 2-6 atoms."""
    np = _np()
    L = [rng.uniform(3.0, 8.0) for _ in range(3)]
    origin = [rng.uniform(-3, 3) for _ in range(3)]
    while True:
        c = rng.uniform(0.12, 0.3) * min(L)
        w = float(np.float32(c)) if it % 2 == 0 else c * (1.0 - rng.choice([1e-9, 1e-8, 1e-7, 1e-6]))
        if w < c:
            break
    ax = rng.randrange(3)
    lo = origin[ax] - 1.01 * c
    edges = np.arange(lo, origin[ax] + L[ax] + 1.01 * c + w, w)
    inside = [e for e in edges.tolist() if origin[ax] + 0.05 * c < e and e + c < origin[ax] + L[ax]]
    e = rng.choice(inside)
    s = w + rng.uniform(0.1, 0.9) * (c - w)
    u = [origin[k] + rng.uniform(0.1, 0.9) * L[k] for k in range(3)]
    u[ax] = e - rng.uniform(0.05, 0.95) * (s - w)
    v = list(u)
    v[ax] = u[ax] + s
    pts = [u, v]
    if rng.random() < 0.5:
        pts.reverse()
    for _ in range(rng.choice([0, 0, 1, 2, 4])):
        pts.insert(rng.randint(0, len(pts)), [origin[k] + rng.random() * L[k] for k in range(3)])
    return _case(np.diag(L), origin, pts, ALL_PBC[it % 8], c, 'float', rng.randint(1, 4), rng.randint(1, 3))


# ----------------------------------------------------------------------------------------
# extreme cutoff / cell ratios, in both directions
# ----------------------------------------------------------------------------------------
def _cell_measures(v, origin=None):
    """every length by which the "size" of a cell is commonly measured: edges, face diagonals, the four body
    diagonals, the Frobenius norm of the vector matrix, the sum of the edges, the perpendicular widths, the extents and
    the diagonal of the Cartesian bounding box."""
    np = _np()
    v = np.asarray(v, dtype=float)
    out = []
    for x in (-1, 0, 1):
        for y in (-1, 0, 1):
            for z in (-1, 0, 1):
                if (x, y, z) > (0, 0, 0):
                    out.append(float(np.linalg.norm(x * v[0] + y * v[1] + z * v[2])))
    out.append(float(np.linalg.norm(v)))
    out.append(float(sum(np.linalg.norm(v[k]) for k in range(3))))
    out.extend(_widths(v))
    corners = np.array([[x, y, z] for x in (0, 1) for y in (0, 1) for z in (0, 1)], dtype=float) @ v
    ext = corners.max(axis=0) - corners.min(axis=0)
    out.extend(float(e) for e in ext)
    out.append(float(np.linalg.norm(ext)))
    return sorted(set(out))


def _pair_spectrum(v, pos, pbc):
    """sorted 27-candidate distances of all pairs (floats; only used to aim a cutoff between two of them)."""
    np = _np()
    P = np.asarray(pos, dtype=float).reshape(-1, 3)
    V = np.asarray(v, dtype=float)
    d0 = P[None, :, :] - P[:, None, :]
    best = None
    for x in ((-1, 0, 1) if pbc[0] else (0,)):
        for y in ((-1, 0, 1) if pbc[1] else (0,)):
            for z in ((-1, 0, 1) if pbc[2] else (0,)):
                d = d0 + (x * V[0] + y * V[1] + z * V[2])
                m = (d * d).sum(axis=-1)
                best = m if best is None else np.minimum(best, m)
    iu = np.triu_indices(len(P), 1)
    return sorted(float(math.sqrt(x)) for x in best[iu])


def gen_bigcut(rng, it):
    """cutoff >> cell.  Cells of every shape (orthogonal, tilted, strongly sheared LAMMPS form with tilt factors up to
    1.5 edges, non-reduced, rotated / left-handed; every 4th case on a dyadic grid: decided exactly), all 8 pbc
    settings, 2-9 atoms on the corners of the cell (opposite ends of every body diagonal), a hair inside them, at the
    centre, at random; the cutoff is (a) uniform between two neighbouring "cell measures" (edges, face and body
    diagonals, Frobenius norm, sum of edges, widths, bounding-box extents and diagonal: whatever a shortcut "the cutoff
    spans the whole cell" might compare with), (b) 1-3 times the longest body diagonal, or (c) aimed between two
    neighbouring values of the system's own pair-distance spectrum (so that the farthest pairs are decided both ways).
    The superbox is then a few bins wide and every bin holds many images."""
    np = _np()
    grid = it % 4 == 3
    q = 4
    kind = (it // 4) % 5
    pbc = ALL_PBC[(it // 20) % 8]                 # mixed radix: grid x kind x pbc all combined (period 160)
    if grid:
        L = [rng.randint(4, 16) / q for _ in range(3)]
    else:
        L = [rng.uniform(1.0, 5.0) for _ in range(3)]
        if rng.random() < 0.3:
            L[rng.randrange(3)] *= rng.choice([0.3, 2.5])
    v = np.diag(L)
    if kind in (1, 2, 3, 4):
        f = 0.5 if kind == 1 else 1.5
        t = lambda length: (round(rng.uniform(-f, f) * length * q) / q) if grid else rng.uniform(-f, f) * length  # noqa
        v[1, 0] = t(L[0])
        v[2, 0] = t(L[0]) if rng.random() < 0.8 else 0.0
        v[2, 1] = t(L[1]) if rng.random() < 0.8 else 0.0
    if kind == 3:
        perm = rng.sample(range(3), 3)
        v = v[perm]
        if rng.random() < 0.5:
            v[rng.randrange(3)] *= -1.0
    if kind == 4 and not grid:
        m = np.array([[rng.gauss(0, 1) for _ in range(3)] for _ in range(3)])
        qq, _ = np.linalg.qr(m)
        v = v @ qq
    origin = [rng.randint(-8, 8) / q for _ in range(3)] if grid else [rng.uniform(-4, 4) for _ in range(3)]
    nper = sum(1 for p in pbc if p)
    n = rng.randint(2, 9 if nper < 3 else 6)
    h = rng.choice([1e-7, 1e-5, 1e-4])
    rel = []
    corner = [rng.choice([0.0, 1.0]) for _ in range(3)]
    if rng.random() < 0.5:
        # the ends of the LONGEST body diagonal
        best = max(((x, y, z) for x in (0, 1) for y in (0, 1) for z in (0, 1)),
                   key=lambda s: float(np.linalg.norm((2 * s[0] - 1) * v[0] + (2 * s[1] - 1) * v[1] + (2 * s[2] - 1) * v[2])))
        corner = [float(x) for x in best]
    rel.append(corner)
    rel.append([1.0 - x for x in corner])                      # the opposite end of one body diagonal
    while len(rel) < n:
        k = rng.random()
        if grid:
            rel.append([rng.choice([0.0, 1.0, 0.5, rng.randint(0, 8) / 8]) for _ in range(3)])
        elif k < 0.4:
            rel.append([rng.choice([0.0, 1.0]) for _ in range(3)])
        elif k < 0.6:
            rel.append([rng.choice([h, 1.0 - h, 0.0, 1.0]) for _ in range(3)])
        elif k < 0.75:
            rel.append([0.5 + rng.uniform(-0.05, 0.05) for _ in range(3)])
        else:
            rel.append([rng.random() for _ in range(3)])
    rng.shuffle(rel)
    pos = np.array(rel) @ v + np.array(origin)
    mode = rng.choice(['measure', 'measure', 'diag', 'spectrum', 'spectrum', 'farthest', 'farthest'])
    ms = _cell_measures(v)
    diag = max(float(np.linalg.norm(x * v[0] + y * v[1] + z * v[2])) for x in (-1, 1) for y in (-1, 1) for z in (1,))
    if mode == 'measure':
        k = rng.randrange(len(ms))
        lo, hi = ms[k], (ms[k + 1] if k + 1 < len(ms) else ms[k] * 1.5)
        cutoff = lo + rng.choice([rng.random(), 0.02, 0.98]) * (hi - lo)
    elif mode == 'diag':
        cutoff = diag * rng.uniform(1.0, 3.0)
    elif mode == 'farthest':
        # the farthest pair of the system just outside (or just inside) the cutoff
        sp = _pair_spectrum(v, pos, pbc)
        cutoff = (sp[-1] if sp and sp[-1] > 0 else diag) * (1.0 + rng.choice([-1, -1, -1, 1]) * rng.choice([1e-6, 1e-3, 0.02, 0.05]))
    else:
        sp = [x for x in _pair_spectrum(v, pos, pbc) if x > 0]
        if sp:
            k = rng.choice([len(sp) - 1, len(sp) - 1, rng.randrange(len(sp))])
            lo, hi = sp[k - 1] if k > 0 else 0.5 * sp[0], sp[k]
            cutoff = 0.5 * (lo + hi) if hi > lo * (1 + 1e-9) else hi * 1.01
            if rng.random() < 0.3:
                cutoff = sp[-1] * rng.uniform(1.001, 1.2)            # everything below the cutoff
        else:
            cutoff = diag
    cutoff = max(cutoff, 0.35 * min(_widths(v)))
    if grid:
        cutoff = max(1, round(cutoff * q)) / q
    return _case(v, origin, pos, pbc, cutoff, 'grid' if grid else 'float', rng.randint(1, 25), rng.randint(1, 25))


_POW2_BINS = [256, 512, 1024, 2048, 4096, 8192, 16384, 32768, 65536]


def gen_elongated(rng, it, nmin=1030, nmax=5000):
    """cell >> cutoff along ONE Cartesian axis (x, y, z in turn): `nmin`..`nmax` cutoff-sized bins along it (bin indices
    far beyond 2^10, 2^11, 2^12), while the other two cell dimensions are 0.4-4 cutoffs (both ratio directions in one
    system).  The long cell vector lies along the axis, the other vectors may be tilted along it and against each
    other, rows may be permuted and the long vector may point down the axis; all 8 pbc settings.  2-16 atoms, placed
    where a bin index matters: in the last bins, in the first bins, in bins 2^m - 2 .. 2^m + 2 for every 2^m below the
    bin count, at random; in pairs along the axis 0.5-1.2 cutoffs apart (decided both ways), and across the periodic
    boundary of the long axis."""
    np = _np()
    ax = it % 3
    kind = (it // 3) % 4
    pbc = ALL_PBC[(it // 12) % 8]                 # mixed radix: axis x kind x pbc (period 96)
    c = rng.uniform(0.4, 2.5)
    N = rng.choice([rng.randint(nmin, min(nmax, nmin + 80)), rng.randint(nmin, nmax), rng.randint(nmin, nmax)]
                   + [rng.randint(p - 12, p + 12) for p in _POW2_BINS if nmin + 12 <= p <= nmax - 12])
    others = [k for k in range(3) if k != ax]
    L = [0.0] * 3
    L[ax] = N * c
    for k in others:
        L[k] = rng.choice([rng.uniform(0.4, 1.0), rng.uniform(1.0, 2.0), rng.uniform(2.0, 4.0)]) * c
    v = np.diag(L)
    if kind in (1, 3):
        for k in others:
            v[k, ax] = rng.uniform(-3.0, 3.0) * c              # short vectors tilted along the long axis
        a, b = others
        v[b, a] = rng.uniform(-0.5, 0.5) * L[a]
    if kind >= 2:
        if rng.random() < 0.5:
            v[ax] *= -1.0                                      # long vector pointing down the axis
        perm = rng.sample(range(3), 3)
        v = v[perm]
    origin = [rng.uniform(-5, 5) for _ in range(3)]
    long_row = [k for k in range(3) if abs(v[k, ax]) > 0.5 * N * c][0]
    corners = np.array([[x, y, z] for x in (0, 1) for y in (0, 1) for z in (0, 1)], dtype=float) @ v
    minc = float(corners[:, ax].min())
    nbins = int((float(corners[:, ax].max()) - minc + 2.02 * c) / c) + 1

    def at_bin(idx, frac):
        """a point inside the cell whose coordinate along the long axis lies in bin `idx` (fraction `frac` of it)."""
        for _ in range(30):
            rel = [rng.random() for _ in range(3)]
            want = (idx + frac) * c + minc - 1.01 * c
            rest = sum(rel[k] * v[k, ax] for k in range(3) if k != long_row)
            rel[long_row] = (want - rest) / v[long_row, ax]
            if 0.0 <= rel[long_row] <= 1.0:
                return rel
        return None

    rel = []
    n = rng.randint(2, 16)
    targets = ['last', 'last', 'first', 'pow2', 'pow2', 'random', 'wrap']
    while len(rel) < n:
        t = rng.choice(targets)
        if t == 'last':
            idx = nbins - 1 - rng.randint(1, 5)
        elif t == 'first':
            idx = rng.randint(1, 4)
        elif t == 'pow2':
            ps = [p for p in _POW2_BINS if p + 3 < nbins]
            idx = (rng.choice(ps) + rng.randint(-2, 2)) if ps else rng.randint(1, nbins - 2)
        elif t == 'wrap':
            # one atom just below the far face of the long vector, its partner just above the near face
            e = rng.uniform(0.0, 0.6) * c
            a = [rng.random() for _ in range(3)]
            a[long_row] = 1.0 - e / (N * c)
            b = [min(max(a[k] + rng.uniform(-0.2, 0.2) * c / max(L[others[0]], L[others[1]], c), 0.0), 1.0)
                 for k in range(3)]
            b[long_row] = rng.uniform(0.0, 0.6) * c / (N * c)
            rel.extend([a, b])
            continue
        else:
            idx = rng.randint(1, max(1, nbins - 2))
        a = at_bin(idx, rng.random())
        if a is None:
            continue
        rel.append(a)
        if rng.random() < 0.8:
            # partner 0.5-1.2 cutoffs further along the long vector, small transverse offset
            b = list(a)
            b[long_row] = a[long_row] + rng.choice([1, -1]) * rng.uniform(0.5, 1.2) * c / (N * c)
            for k in range(3):
                if k != long_row:
                    b[k] = min(max(a[k] + rng.uniform(-0.15, 0.15), 0.0), 1.0)
            if 0.0 <= b[long_row] <= 1.0:
                rel.append(b)
    rng.shuffle(rel)
    pos = np.array(rel) @ v + np.array(origin)
    case = _case(v, origin, pos, pbc, c, 'float', rng.randint(1, 25), rng.randint(1, 25))
    case['long_axis'] = ax
    return case


def gen_chain(rng, it, natoms=None, nmin=1030, nmax=5000):
    """a sparse chain of 1100-5000 atoms along the long axis of an elongated cell (one atom every 0.7-1.3 cutoffs,
    transverse scatter over a cross-section of 1-3 cutoffs: 2-8 neighbors each, every bin along the axis occupied,
    few atoms per bin), atom order shuffled.  Decided with the sparse oracle."""
    np = _np()
    ax = it % 3
    c = rng.uniform(0.5, 2.0)
    n = natoms or rng.randint(nmin + 70, nmax)
    step = rng.uniform(0.7, 1.3)
    Llong = n * step * c
    others = [k for k in range(3) if k != ax]
    L = [0.0] * 3
    L[ax] = Llong
    for k in others:
        L[k] = rng.uniform(1.0, 3.0) * c
    v = np.diag(L)
    if it % 2:
        for k in others:
            v[k, ax] = rng.uniform(-2.0, 2.0) * c
    if (it // 2) % 2:
        v = v[[1, 2, 0]]
    origin = [rng.uniform(-5, 5) for _ in range(3)]
    pbc = ALL_PBC[(it // 3) % 8]
    long_row = [k for k in range(3) if abs(v[k, ax]) > 0.5 * Llong][0]
    rel = np.array([[rng.random() for _ in range(3)] for _ in range(n)])
    rel[:, long_row] = (np.arange(n) + np.array([rng.uniform(0.0, 0.9) for _ in range(n)])) / n
    idx = list(range(n))
    rng.shuffle(idx)
    rel = rel[idx]
    pos = rel @ v + np.array(origin)
    case = _case(v, origin, pos, pbc, c, 'float', rng.choice([1, 3, 20]), rng.choice([1, 2, 10]))
    case['long_axis'] = ax
    return case


# ----------------------------------------------------------------------------------------
# signs and axis orders: every cell above, seen in a mirror / with its axes renamed / spanned from another corner
# ----------------------------------------------------------------------------------------
_AXIS_PERMS = [(0, 1, 2), (1, 2, 0), (2, 0, 1), (0, 2, 1), (2, 1, 0), (1, 0, 2)]


def _mirrored(case, mask):
    """the whole system reflected through the coordinate planes named by the bits of `mask` (bit j: Cartesian axis j):
    column j of the cell matrix, origin[j] and every position[j] change sign.  Exact in every regime (a sign change
    rounds nothing): a diagonal cell diag(5, 6, 7) at origin (0, 0, 1) becomes diag(5, 6, -7) with its origin on the
    top face, a LAMMPS-form cell gets the sign pattern `mask` on its diagonal, a right-handed cell becomes
    left-handed for an odd number of bits.  Distances, and with them the lists, are unchanged."""
    np = _np()
    s = np.array([-1.0 if mask >> j & 1 else 1.0 for j in range(3)])
    c = dict(case)
    c['vects'] = (np.array(case['vects'], dtype=float) * s[None, :]).tolist()
    c['origin'] = [float(x) for x in (np.array(case['origin'], dtype=float) * s)]
    c['pos'] = (np.array(case['pos'], dtype=float).reshape(-1, 3) * s[None, :]).tolist()
    return c


def _axes_renamed(case, perm):
    """Cartesian axes renamed: new axis j is old axis perm[j] (columns of the cell matrix, origin and positions
    permuted; a proper or improper rotation of the whole system).  Exact as data; the implementation then adds the
    three squares in another order, so in the float regimes the last bit of a distance may differ (tie band)."""
    np = _np()
    p = list(perm)
    c = dict(case)
    c['vects'] = np.array(case['vects'], dtype=float)[:, p].tolist()
    c['origin'] = [float(case['origin'][k]) for k in p]
    c['pos'] = np.array(case['pos'], dtype=float).reshape(-1, 3)[:, p].tolist()
    if 'long_axis' in c:
        c['long_axis'] = p.index(c['long_axis'])
    return c


def _vectors_reordered(case, perm):
    """the same cell with its three vectors (and their pbc flags) listed in another order: the same lattice, the same
    atoms."""
    np = _np()
    p = list(perm)
    c = dict(case)
    c['vects'] = np.array(case['vects'], dtype=float)[p].tolist()
    c['pbc'] = [bool(case['pbc'][k]) for k in p]
    return c


def _spanned_from_far_face(case, k):
    """the same cell spanned from the opposite face of vector k: vector k negated, origin moved to origin + vector k;
    the atoms do not move and are still inside.  None when origin + vector k is not exactly representable (float
    regimes: the face would move by a rounding error and atoms lying on it would end up outside the cell)."""
    np = _np()
    v = np.array(case['vects'], dtype=float)
    o = np.array(case['origin'], dtype=float)
    no = o + v[k]
    if any(Fraction(float(no[j])) != Fraction(float(o[j])) + Fraction(float(v[k, j])) for j in range(3)):
        return None
    c = dict(case)
    v2 = v.copy()
    v2[k] = -v[k]
    c['vects'] = v2.tolist()
    c['origin'] = [float(x) for x in no]
    return c


def _variant(case, rng):
    """one of the 8 x 6 x 6 (x 8 where exact) equivalent descriptions of the system of `case`: mirrored through 0-3
    coordinate planes, Cartesian axes renamed, cell vectors listed in another order, spanned from other corners.
    Returns (case, text)."""
    mask = rng.choice([1, 2, 4, 3, 5, 6, 7, 4, 2, 1, 0])
    aperm = rng.choice(_AXIS_PERMS) if rng.random() < 0.4 else (0, 1, 2)
    vperm = rng.choice(_AXIS_PERMS) if rng.random() < 0.3 else (0, 1, 2)
    c = _mirrored(case, mask)
    what = [f'mirrored through the planes {[j for j in range(3) if mask >> j & 1]}'] if mask else []
    if aperm != (0, 1, 2):
        c = _axes_renamed(c, aperm)
        what.append(f'Cartesian axes renamed {aperm}')
    if vperm != (0, 1, 2):
        c = _vectors_reordered(c, vperm)
        what.append(f'cell vectors listed in the order {vperm}')
    for k in range(3):
        if rng.random() < 0.35:
            f = _spanned_from_far_face(c, k)
            if f is not None:
                c = f
                what.append(f'spanned from the far face of vector {k}')
    return c, ', '.join(what) or 'as generated'


def gen_signed(rng, it):
    """Axis-aligned and LAMMPS-form cells with EVERY sign pattern of the diagonal (a cell vector pointing down its
    axis, the origin then on the upper face), crossed with the shape (diagonal / lower triangular with tilt factors of
    either sign and every zero pattern of the three tilt factors / upper triangular / diagonal with the axes cyclically renamed: one non-zero entry per row and column
    but none on the diagonal / tilted and renamed), the 8 pbc settings, and float vs dyadic-grid numbers (every 3rd:
    ties decided exactly).  2-28 atoms anywhere in the cell, faces and corners included, with pairs placed across
    each periodic face (a hair to 0.9 cutoffs apart through the image) so that the wrap along a negative vector is
    exercised in both directions; cutoff 0.25-1.3 of the smallest cell width."""
    np = _np()
    signs = [-1.0 if it >> j & 1 else 1.0 for j in range(3)]            # it % 8: sign pattern of the diagonal
    shape = (it // 8) % 5
    pbc = list(ALL_PBC[(it // 40) % 8]) if (it // 40) % 3 else [True, True, True]
    grid = it % 3 == 2
    q = 8
    if grid:
        L = [rng.randint(12, 40) / q for _ in range(3)]
    else:
        L = [rng.uniform(2.0, 9.0) for _ in range(3)]
    v = np.diag([signs[k] * L[k] for k in range(3)])
    if shape in (1, 2, 4):
        def t(length):
            x = rng.uniform(-0.5, 0.5) * length
            return round(x * q) / q if grid else x
        tm = rng.randint(1, 7)               # which tilt factors are non-zero: every zero pattern (xy only: c decoupled, ...)
        v[1, 0], v[2, 0], v[2, 1] = (t(L[0]) if tm & 1 else 0.0), (t(L[0]) if tm & 2 else 0.0), (t(L[1]) if tm & 4 else 0.0)
    if shape == 2:
        v = v.T.copy()                                                   # upper triangular
    if shape in (3, 4):
        v = v[:, list(rng.choice(_AXIS_PERMS[1:]))]                      # axes renamed: off-diagonal "diagonal" cell
    origin = [rng.randint(-16, 16) / q for _ in range(3)] if grid else [rng.uniform(-5, 5) for _ in range(3)]
    if it % 7 == 0:
        origin = [0.0, 0.0, 0.0]
    w = min(_widths(v))
    if grid:
        cands = [c for c in (0.5, 0.75, 1.0, 1.25, 1.5, 2.0, 2.5, 3.0) if 0.25 * w <= c <= 1.3 * w]
        cutoff = rng.choice(cands or [1.0])
    else:
        cutoff = rng.choice([rng.uniform(0.25, 0.5), rng.uniform(0.5, 0.9), rng.uniform(0.9, 1.3)]) * w
    r = cutoff / w
    n = _limit_atoms(rng, r, pbc, 28)
    rel = []
    lens = [float(np.linalg.norm(v[k])) for k in range(3)]
    while len(rel) < max(n, 2):
        a = [rng.choice([rng.random(), rng.random(), 0.0, 1.0]) for _ in range(3)]
        if grid:
            a = [round(x * 8) / 8 for x in a]
        rel.append(a)
        k = rng.randrange(3)
        if pbc[k] and rng.random() < 0.6:
            # partner on the other side of periodic face k: e below the far face / above the near face
            gap = rng.choice([1e-6, 0.05, 0.3, 0.6, 0.9]) * cutoff / lens[k]
            e1 = rng.random() * gap
            b = [min(max(x + rng.uniform(-0.2, 0.2) * cutoff / lens[j], 0.0), 1.0) for j, x in enumerate(a)]
            a2 = list(a)
            a2[k], b[k] = 1.0 - e1, gap - e1
            if grid:
                a2 = [round(x * 8) / 8 for x in a2]
                b = [round(x * 8) / 8 for x in b]
            rel[-1] = a2
            rel.append([min(max(x, 0.0), 1.0) for x in b])
    rng.shuffle(rel)
    pos = np.array(rel) @ v + np.array(origin)
    case = _case(v, origin, pos, pbc, cutoff, 'grid' if grid else 'float', rng.randint(1, 25), rng.randint(1, 25))
    case['signs'] = [int(s) for s in signs]
    return case


def load_corpus():
    out = []
    if CORPUS.is_dir():
        for p in sorted(CORPUS.glob('*.json')):
            d = json.loads(p.read_text())
            c = d['case']
            c.setdefault('regime', 'float')
            c.setdefault('init', 3)
            c.setdefault('delta', 2)
            out.append((p.name, c))
    return out


# ----------------------------------------------------------------------------------------
# real code
# ----------------------------------------------------------------------------------------
def _system(case):
    np = _np()
    import atomman as am
    box = am.Box(vects=np.array(case['vects']), origin=np.array(case['origin']))
    pos = np.array(case['pos']).reshape(-1, 3)
    if case.get('dtype'):
        # positions stored by Atoms in another dtype (Atoms keeps what it is given); values are exactly representable
        conv = pos.astype(case['dtype'])
        if (conv.astype(float) == pos).all():
            pos = conv
        else:                       # not representable in that dtype: keep float64 (a generator slip, not an observation)
            case.pop('dtype')
    atoms = am.Atoms(pos=pos)
    # the periodicity flags as python bools / ints / numpy booleans (System turns them into a boolean array)
    pbc = [tuple(case['pbc']), [int(p) for p in case['pbc']], tuple(np.bool_(p) for p in case['pbc'])][len(pos) % 3]
    system = am.System(atoms=atoms, box=box, pbc=pbc)
    # the implementation works on what the objects hold (Box zeroes terms below 1e-9 of its largest one): model and
    # oracle are given exactly that state
    vb = np.array(system.box.vects, dtype=float).tolist()
    ob = [float(x) for x in system.box.origin]
    if vb != case['vects'] or ob != case['origin']:
        case['vects'], case['origin'] = vb, ob
    return system


class _ArrNL:
    """the bare array returned by `nlist(...)` read like a NeighborList (coord = column 0, list = the next coord entries)."""
    def __init__(self, arr):
        np = _np()
        self.nlist = np.asarray(arr)
        self.coord = self.nlist[:, 0]

    def __len__(self):
        return self.nlist.shape[0]

    def __getitem__(self, i):
        return self.nlist[i, 1:1 + int(self.nlist[i, 0])]


FORMS = ['as given', 'cutoff as numpy float64 / python int, sizes as numpy int64',
         'cutoff as float32 / numpy int32 where exact, sizes as numpy int32', 'nlist(system, cutoff, initialsize, deltasize) '
         'positionally']


def _cutoff_form(c, form):
    np = _np()
    if form == 1:
        return int(c) if float(c).is_integer() else np.float64(c)
    if form == 2:
        if float(c).is_integer() and abs(c) < 2 ** 31:
            return np.int32(int(c))
        return np.float32(c) if float(np.float32(c)) == c else np.float64(c)
    return c


def _build(case, system, init=None, delta=None, via=0, form=0):
    """`form`: the same VALUES handed over as other python / numpy types (0: python float and ints)."""
    np = _np()
    import atomman as am
    kw = {}
    conv = {0: (lambda x: x), 1: np.int64, 2: np.int32, 3: (lambda x: x)}[form]
    if init is not None:
        kw['initialsize'] = conv(init)
    if delta is not None:
        kw['deltasize'] = conv(delta)
    cutoff = _cutoff_form(case['cutoff'], form)
    if form == 3:
        args = [system, cutoff] + ([kw['initialsize']] if 'initialsize' in kw else []) \
            + ([kw['deltasize']] if 'initialsize' in kw and 'deltasize' in kw else [])
        return _ArrNL(am.nlist(*args))
    if via == 0:
        return am.NeighborList(system=system, cutoff=cutoff, **kw)
    return system.neighborlist(cutoff=cutoff, **kw)


def _snapshot(system):
    """bitwise state of everything the call is handed: positions (with dtype), cell vectors, origin, pbc."""
    np = _np()
    pos = np.asarray(system.atoms.pos)
    return (pos.dtype.str, pos.shape, pos.tobytes(), np.asarray(system.box.vects).tobytes(),
            np.asarray(system.box.origin).tobytes(), tuple(bool(x) for x in system.pbc))


def _rows(nl):
    return [[int(j) for j in nl[i]] for i in range(len(nl))]


def _line(case, init, delta, op='nlist'):
    np = _np()
    n = len(case['pos'])
    head = f"{op} {int(case['pbc'][0])} {int(case['pbc'][1])} {int(case['pbc'][2])} {cm.fr(case['cutoff'])}"
    if op == 'nlist':
        head += f' {init} {delta} {_tol_str(case)}'
    flat = [x for p in case['pos'] for x in p]
    return (head + ' ' + cm.frs(np.array(case['vects'])) + ' ' + cm.frs(case['origin']) + f' {n}'
            + ((' ' + cm.frs(flat)) if flat else ''))


def rounding_band(case):
    """Relative half-width (a Fraction) of the band around cutoff^2 inside which the IEEE-double evaluation of
    `dmag2 < cutoff*cutoff` in nlist.pyx / dmag.pyx may differ from the exact comparison.  Derived, not tuned
    (u = 2^-53, standard model fl(a op b) = (a op b)(1 + e), |e| <= u; an fma contraction only removes roundings):
      * each component  d_j = ((p1_j - p0_j) + x b0_j) + y b1_j) + z b2_j  (x, y, z in {-1, 0, 1}: the products are
        exact) takes at most 4 roundings of partial sums bounded by S_j = |p1_j| + |p0_j| + |b0_j| + |b1_j| + |b2_j|,
        so |fl(d_j) - d_j| <= 4 u S_j (1 + u)^3; with S = max_j S_j the vector error is |dd| <= sqrt(3) 4 u S (1+u)^3;
      * mag2 = (d0 d0 + d1 d1) + d2 d2: every term goes through at most 3 roundings, relative error (1+u)^3 - 1;
      * cutoff2 = cutoff * cutoff: one rounding.
    Hence for a pair with |d| about the cutoff c:
      |fl(mag2) - |d|^2| / c^2  <=  2 |dd| / c + 3u + (second order)  <=  u (13.9 S / c + 3) (1 + 1e-15),
    and with the rounding of cutoff2 the comparison is decided as in exact arithmetic whenever
      | |d|^2 - c^2 |  >  u (16 S / c + 8) c^2      (16 > 13.9 and 8 > 4 leave room for the second-order terms).
    The same quantity bounds (relative to the bin width c) the error of a float bin edge lo + k c."""
    np = _np()
    P = np.abs(np.array(case['pos'], dtype=float).reshape(-1, 3)).max(axis=0) if len(case['pos']) else np.zeros(3)
    B = np.abs(np.array(case['vects'], dtype=float)).sum(axis=0)
    S = float((2 * P + B).max())
    ratio = Fraction(S) / Fraction(case['cutoff'])
    return (16 * ratio + 8) / 2 ** 53


def _tol(case):
    """tie band as a fraction of cutoff^2: exact zero on the dyadic grids (decided exactly there), the derived
    rounding band elsewhere; 1e-9 for the `outside` systems (their result depends on the float binning)."""
    if case.get('regime') == 'outside':
        return Fraction(TOL)
    if case.get('regime') == 'grid':
        return Fraction(0)
    return rounding_band(case)


def _tol_str(case):
    t = _tol(case)
    if t == 0:
        return TOL          # the model only *flags* near-cutoff pairs; on the grids the flag is ignored
    # round up to a short rational (the wire form need not carry 60-digit numerators)
    k = 2 ** 70
    return f'{-((-t.numerator * k) // t.denominator)}/{k}'


def _parse_rows(nums, n):
    rows = []
    k = 0
    for _ in range(n):
        c = nums[k]
        rows.append(nums[k + 1:k + 1 + c])
        k += 1 + c
    if k != len(nums):
        raise ValueError('row stream length')
    return rows


def _flat_rows(rows):
    out = []
    for r in rows:
        out.append(len(r))
        out.extend(r)
    return ' '.join(map(str, out))


# ----------------------------------------------------------------------------------------
# exact oracle
# ----------------------------------------------------------------------------------------
def _scaled_ints(case):
    """all inputs as integers over one common power-of-two denominator D."""
    vals = [x for r in case['vects'] for x in r] + [x for p in case['pos'] for x in p] + [case['cutoff']]
    frs = [Fraction(x) for x in vals]
    D = max(f.denominator for f in frs)
    ints = [f.numerator * (D // f.denominator) for f in frs]
    n = len(case['pos'])
    v = [ints[0:3], ints[3:6], ints[6:9]]
    pos = [ints[9 + 3 * i:12 + 3 * i] for i in range(n)]
    return v, pos, ints[-1], D


def _shifts(case, v):
    rng_ = [(-1, 0, 1) if p else (0,) for p in case['pbc']]
    out = []
    for x in rng_[0]:
        for y in rng_[1]:
            for z in rng_[2]:
                out.append((x * v[0][0] + y * v[1][0] + z * v[2][0], x * v[0][1] + y * v[1][1] + z * v[2][1],
                            x * v[0][2] + y * v[1][2] + z * v[2][2]))
    return out


def exact_classes(case):
    """dict (i,j), i<j -> 'in' | 'out' | 'tie'; 'tie': exact |d2 - c2| <= band * c2 with the derived
    `rounding_band` (exempt; on the dyadic grids there is no band: every comparison is resolved exactly)."""
    np = _np()
    n = len(case['pos'])
    v, pos, c, D = _scaled_ints(case)
    sh = _shifts(case, v)
    c2 = c * c
    grid = case['regime'] == 'grid'
    t = _tol(case)
    band = 0 if grid else -((-c2 * t.numerator) // t.denominator)
    out = {}

    def exact(i, j):
        dx, dy, dz = pos[j][0] - pos[i][0], pos[j][1] - pos[i][1], pos[j][2] - pos[i][2]
        best = min((dx + s[0]) ** 2 + (dy + s[1]) ** 2 + (dz + s[2]) ** 2 for s in sh)
        if not grid and abs(best - c2) <= band:
            return 'tie'
        return 'in' if best < c2 else 'out'
    if n <= 6:
        for i in range(n):
            for j in range(i + 1, n):
                out[(i, j)] = exact(i, j)
        return out
    # float pre-filter with a wide margin, exact integers inside the margin
    P = np.array(case['pos']).reshape(-1, 3)
    V = np.array(case['vects'])
    d0 = P[None, :, :] - P[:, None, :]
    best = None
    for x in ((-1, 0, 1) if case['pbc'][0] else (0,)):
        for y in ((-1, 0, 1) if case['pbc'][1] else (0,)):
            for z in ((-1, 0, 1) if case['pbc'][2] else (0,)):
                d = d0 + (x * V[0] + y * V[1] + z * V[2])
                m = (d * d).sum(axis=-1)
                best = m if best is None else np.minimum(best, m)
    cc = case['cutoff'] ** 2
    scale = max(1.0, float(np.abs(P).max()) ** 2 / cc) if n else 1.0
    margin = 1e-6 * scale
    for i in range(n):
        for j in range(i + 1, n):
            b = best[i, j]
            if b < cc * (1 - margin):
                out[(i, j)] = 'in'
            elif b > cc * (1 + margin):
                out[(i, j)] = 'out'
            else:
                out[(i, j)] = exact(i, j)
    return out


def true_nearest(case, kmax=3000):
    """True nearest-image squared distances over ALL lattice shifts n in Z^3 (zero along non-periodic directions),
    independent of atomman and of the 27-candidate rule.  Radius: if |d + n.V| < r then, with s = d.V^-1 the relative
    separation and recip_i the i-th column of V^-1,  |n_i + s_i| = |(d + n.V).recip_i| <= r |recip_i|  (Cauchy-
    Schwarz; same argument as C02 `search_radius_sound`), so only |n_i| <= |s_i| + r / w_i  can give an image nearer
    than r (w_i = 1/|recip_i| the perpendicular width).  With r = the 27-candidate distance of the pair (bounded by
    the cell diameter) every nearer image is inside the enumerated range.
    Returns None when more than `kmax` shifts would be needed, else dict (i,j) -> (min27, true_min) as exact
    Fractions of squared distances (float prefilter, exact integers for the candidates within 1e-6 of the minimum)."""
    np = _np()
    n = len(case['pos'])
    if n < 2:
        return {}
    V = np.array(case['vects'], dtype=float)
    P = np.array(case['pos'], dtype=float).reshape(-1, 3)
    inv = np.linalg.inv(V)
    rn = [math.sqrt(float((inv[:, i] ** 2).sum())) for i in range(3)]
    d0 = P[None, :, :] - P[:, None, :]
    S = np.abs(d0 @ inv).reshape(-1, 3).max(axis=0)
    # 27-candidate minimum in floats (only to size the search), the cell diagonal bounds it anyway
    sh27 = np.array([[x, y, z] for x in ((-1, 0, 1) if case['pbc'][0] else (0,))
                     for y in ((-1, 0, 1) if case['pbc'][1] else (0,))
                     for z in ((-1, 0, 1) if case['pbc'][2] else (0,))], dtype=float)
    m27 = None
    for t in sh27:
        d = d0 + t @ V
        m = (d * d).sum(axis=-1)
        m27 = m if m27 is None else np.minimum(m27, m)
    rmax = math.sqrt(float(m27.max())) * (1 + 1e-9)
    R = [int(math.floor(S[i] + rmax * rn[i] + 1e-9)) + 1 if case['pbc'][i] else 0 for i in range(3)]
    K = (2 * R[0] + 1) * (2 * R[1] + 1) * (2 * R[2] + 1)
    if K > kmax:
        return None
    shifts = [(x, y, z) for x in range(-R[0], R[0] + 1) for y in range(-R[1], R[1] + 1) for z in range(-R[2], R[2] + 1)]
    T = np.array(shifts, dtype=float) @ V                                  # K x 3
    v, pos, c, D = _scaled_ints(case)
    Ti = [(x * v[0][0] + y * v[1][0] + z * v[2][0], x * v[0][1] + y * v[1][1] + z * v[2][1],
           x * v[0][2] + y * v[1][2] + z * v[2][2]) for (x, y, z) in shifts]
    sh = _shifts(case, v)
    out = {}
    for i in range(n):
        dd = d0[i][:, None, :] + T[None, :, :]                              # n x K x 3
        m = (dd * dd).sum(axis=-1)                                          # n x K
        mn = m.min(axis=1)
        for j in range(i + 1, n):
            di = (pos[j][0] - pos[i][0], pos[j][1] - pos[i][1], pos[j][2] - pos[i][2])
            near = np.nonzero(m[j] <= mn[j] * (1 + 1e-6) + 1e-300)[0]
            tm = min((di[0] + Ti[k][0]) ** 2 + (di[1] + Ti[k][1]) ** 2 + (di[2] + Ti[k][2]) ** 2 for k in near)
            b27 = min((di[0] + t[0]) ** 2 + (di[1] + t[1]) ** 2 + (di[2] + t[2]) ** 2 for t in sh)
            out[(i, j)] = (Fraction(b27, D * D), Fraction(tm, D * D))
    return out


def _true_nearest_report(ctx, case, rows):
    """The claim of the property is about the periodic distance in the sense of C02 (the shortest of the 27
    candidates).  Record how it relates to the true nearest image, check the oracle against the C02 theorem
    (`tilted_true_nearest`: a true nearest image shorter than half the smallest periodic width IS the 27-candidate
    result) and count the pairs that are nearer than the cutoff only through a second-neighbour image (no claim)."""
    np = _np()
    tn = true_nearest(case)
    if tn is None:
        ctx.extra['true_nearest_skipped_cases'] = ctx.extra.get('true_nearest_skipped_cases', 0) + 1
        return
    w = _widths(case['vects'])
    wp = [w[k] for k in range(3) if case['pbc'][k]]
    half2 = Fraction(min(wp)) ** 2 / 4 if wp else None
    c2 = Fraction(case['cutoff']) ** 2
    sets = [set(r) for r in rows]
    for (i, j), (b27, tm) in tn.items():
        assert tm <= b27, 'oracle: enumerated minimum above the 27-candidate minimum'
        ctx.extra['true_nearest_pairs'] = ctx.extra.get('true_nearest_pairs', 0) + 1
        if half2 is not None and tm < half2 * (1 - Fraction(1, 10 ** 9)):
            assert tm == b27, f'oracle: true nearest image below half the width but not among the 27: {case}'
        if tm != b27:
            ctx.extra['pairs_27_not_true_nearest'] = ctx.extra.get('pairs_27_not_true_nearest', 0) + 1
            if tm < c2 <= b27:
                ctx.extra['pairs_below_cutoff_only_beyond_27'] = ctx.extra.get('pairs_below_cutoff_only_beyond_27', 0) + 1
                if j in sets[i]:
                    ctx.extra['beyond_27_listed'] = ctx.extra.get('beyond_27_listed', 0) + 1


def exact_neighbors_sparse(case):
    """(pairs below the cutoff, pairs inside the tie band), each a set of (i, j), i < j — the same classification as
    `exact_classes`, for systems with many atoms and few neighbors each (chains, lattices), in O(n) instead of O(n^2).
    Candidates: a dictionary keyed by floor(coordinate / (1.000001 cutoff)) holds every atom and every one of its (up
    to 26) images; a pair whose 27-candidate distance is below cutoff (1 + 1e-7) has an image of j in one of the 27
    dictionary cells around the real atom i (every component of the separation is shorter than the cell edge; the
    float floor is off by at most 1e-12 cutoffs for the coordinate ranges this is used for).  Every candidate is then
    decided with exact integers over all shifts.  Independent of atomman, numpy only for the coordinates."""
    np = _np()
    n = len(case['pos'])
    if n < 2:
        return set(), set()
    P = np.array(case['pos'], dtype=float).reshape(-1, 3)
    V = np.array(case['vects'], dtype=float)
    c = float(case['cutoff'])
    assert float(np.abs(P).max()) / c < 1e8, 'sparse oracle: coordinates too large for the float pre-filter'
    cell = c * (1.0 + 1e-6)
    rs = [(-1, 0, 1) if p else (0,) for p in case['pbc']]
    table = {}
    for x in rs[0]:
        for y in rs[1]:
            for z in rs[2]:
                K = np.floor((P + (x * V[0] + y * V[1] + z * V[2])) / cell).astype(np.int64).tolist()
                for j, k in enumerate(K):
                    table.setdefault((k[0], k[1], k[2]), []).append(j)
    K0 = np.floor(P / cell).astype(np.int64).tolist()
    near = [(a, b, d) for a in (-1, 0, 1) for b in (-1, 0, 1) for d in (-1, 0, 1)]
    cand = set()
    for i, k in enumerate(K0):
        for a, b, d in near:
            for j in table.get((k[0] + a, k[1] + b, k[2] + d), ()):
                if j != i:
                    cand.add((i, j) if i < j else (j, i))
    v, pos, ci, D = _scaled_ints(case)
    sh = _shifts(case, v)
    c2 = ci * ci
    grid = case['regime'] == 'grid'
    t = _tol(case)
    band = 0 if grid else -((-c2 * t.numerator) // t.denominator)
    inside, tie = set(), set()
    for (i, j) in cand:
        dx, dy, dz = pos[j][0] - pos[i][0], pos[j][1] - pos[i][1], pos[j][2] - pos[i][2]
        best = min((dx + s[0]) ** 2 + (dy + s[1]) ** 2 + (dz + s[2]) ** 2 for s in sh)
        if not grid and abs(best - c2) <= band:
            tie.add((i, j))
        elif best < c2:
            inside.add((i, j))
    return inside, tie


def _structural(rows, coord, n):
    """the clauses that need no distance: shape, coord = length, range, no self entry, strictly ascending, symmetric."""
    bad = []
    if len(rows) != n or len(coord) != n:
        return [('shape', f'{len(rows)} rows / {len(coord)} coordination numbers for {n} atoms')]
    for i, r in enumerate(rows):
        if coord[i] != len(r):
            bad.append(('coord', f'coord[{i}] = {coord[i]} but the list has {len(r)} entries'))
        if any(not (0 <= j < n) for j in r):
            bad.append(('range', f'list of atom {i} holds an index outside 0..{n - 1}: {r[:40]}'))
            return bad
        if i in r:
            bad.append(('self', f'atom {i} lists itself: {r[:40]}'))
        if any(r[k] >= r[k + 1] for k in range(len(r) - 1)):
            bad.append(('sorted', f'list of atom {i} is not strictly ascending (unsorted or duplicate): {r[:40]}'))
        if len(bad) > 3:
            return bad
    sets = [set(r) for r in rows]
    for i in range(n):
        for j in rows[i]:
            if i not in sets[j]:
                bad.append(('symmetric', f'{j} is listed for atom {i} but {i} is not listed for atom {j}'))
                break
        if len(bad) > 3:
            break
    return bad


def clauses_sparse(case, rows, coord, sparse=None):
    """`clauses` with the sparse oracle (many atoms, few neighbors each)."""
    n = len(case['pos'])
    bad = _structural(rows, coord, n)
    if bad:
        return bad
    inside, tie = sparse if sparse is not None else exact_neighbors_sparse(case)
    listed = {(i, j) for i, r in enumerate(rows) for j in r if i < j}
    for (i, j) in sorted(inside - listed)[:3]:
        bad.append(('missing', f'atoms {i} and {j} are closer than the cutoff {case["cutoff"]!r} '
                    f'(periodic distance {_dist(case, i, j):.12g}) but are not neighbors'))
    for (i, j) in sorted(listed - inside - tie)[:3]:
        bad.append(('spurious', f'atoms {i} and {j} are listed as neighbors but their periodic distance '
                    f'{_dist(case, i, j):.12g} is not below the cutoff {case["cutoff"]!r}'))
    return bad


def clauses(case, rows, coord, cls=None):
    """the property's clauses on one result; returns [(key, text)]."""
    n = len(case['pos'])
    bad = _structural(rows, coord, n)
    if bad:
        return bad
    sets = [set(r) for r in rows]
    cls = cls if cls is not None else exact_classes(case)
    for (i, j), k in cls.items():
        listed = j in sets[i]
        if k == 'in' and not listed:
            bad.append(('missing', f'atoms {i} and {j} are closer than the cutoff {case["cutoff"]!r} '
                        f'(periodic distance {_dist(case, i, j):.12g}) but are not neighbors'))
        elif k == 'out' and listed:
            bad.append(('spurious', f'atoms {i} and {j} are listed as neighbors but their periodic distance '
                        f'{_dist(case, i, j):.12g} is not below the cutoff {case["cutoff"]!r}'))
        if len(bad) > 3:
            break
    return bad


def _dist(case, i, j):
    v, pos, c, D = _scaled_ints(case)
    sh = _shifts(case, v)
    dx, dy, dz = pos[j][0] - pos[i][0], pos[j][1] - pos[i][1], pos[j][2] - pos[i][2]
    best = min((dx + s[0]) ** 2 + (dy + s[1]) ** 2 + (dz + s[2]) ** 2 for s in sh)
    return math.sqrt(Fraction(best, D * D))


def _payload(case, **kw):
    d = {'op': 'nlist', 'case': case}
    d.update(kw)
    return d


# ----------------------------------------------------------------------------------------
# translator: the storage-growth code of nlist.pyx -> lean/Atomman/Generated/NlistStorage.lean
# ----------------------------------------------------------------------------------------
GENERATED = ['NlistStorage', 'NlistSource']

_BIN_BLOCK = [
    r'c = xyzbins\[x, y, z, 0\] \+ 1',
    r'if (?P<bin_trigger>.+):',
    r'newbins = np\.zeros\(\(numxbins, numybins, numzbins, (?P<bin_width>.+)\), dtype=np\.int64\)',
    r'for i in range\(xyzbins\.shape\[0\]\):',
    r'for j in range\(xyzbins\.shape\[1\]\):',
    r'for k in range\(xyzbins\.shape\[2\]\):',
    r'for l in range\((?P<bin_copy>.+)\):',
    r'newbins\[i, j, k, l\] = xyzbins\[i, j, k, l\]',
    r'xyzbins = newbins',
    r'maxatomsperbin \+= (?P<bin_grow>.+)',
    r'if c > maxc:',
    r'maxc = c',
    r'xyzbins\[x, y, z, 0\] = c',
    r'xyzbins\[x, y, z, c\] = atomindex\[n\]',
]
_NBR_BLOCK = [
    r'neighbors\[uindex, 0\] \+= 1',
    r'neighbors\[vindex, 0\] \+= 1',
    r'if (?P<nbr_trigger>.+):',
    r'newneighbors = np\.empty\(\(natoms, (?P<nbr_width>.+)\), dtype=np\.int64\)',
    r'for j in range\(neighbors\.shape\[0\]\):',
    r'for k in range\((?P<nbr_copy>.+)\):',
    r'newneighbors\[j, k\] = neighbors\[j, k\]',
    r'neighbors = newneighbors',
    r'maxneighbors \+= (?P<nbr_grow>.+)',
]
_SINGLE = [
    r'cdef Py_ssize_t maxatomsperbin = (?P<bin_init>\d+)',
    r'xyzbins = np\.zeros\(\(numxbins, numybins, numzbins, (?P<bin_init_width>.+)\), dtype=np\.int64\)',
    r'cdef Py_ssize_t maxneighbors = (?P<nbr_init>.+)',
    r'cdef long long\[:, :\] neighbors = np\.empty\(\(natoms, (?P<nbr_init_width>.+)\), dtype=np\.int64\)',
]


def _code_lines(src):
    import re
    out = []
    for l in src.splitlines():
        l = re.sub(r'#.*$', '', l).strip()
        if l:
            out.append(l)
    return out


def _match_block(lines, pats, what):
    import re
    from ..translate import TranslationError
    hits = []
    for k in range(len(lines) - len(pats) + 1):
        if re.fullmatch(pats[0], lines[k]):
            g = {}
            for off, pat in enumerate(pats):
                m = re.fullmatch(pat, lines[k + off])
                if not m:
                    g = None
                    break
                g.update(m.groupdict())
            if g is not None:
                hits.append(g)
    if len(hits) != 1:
        raise TranslationError(f'nlist.pyx: the {what} block no longer has the translated shape ({len(hits)} matches)')
    return hits[0]


def _nat_expr(text, names):
    """restricted integer expression -> Lean term over Nat: names, literals, +, *, comparisons, and/or/not.
    (no subtraction / division: they would not mean the same on Nat)."""
    import ast
    from ..translate import TranslationError
    subst = {'neighbors[uindex, 0]': 'cu', 'neighbors[vindex, 0]': 'cv'}
    for a, b in subst.items():
        text = text.replace(a, b)
    try:
        tree = ast.parse(text.strip(), mode='eval').body
    except SyntaxError as e:
        raise TranslationError(f'nlist.pyx: cannot parse {text!r}: {e}')

    def go(n):
        if isinstance(n, ast.Constant) and isinstance(n.value, int) and not isinstance(n.value, bool) and n.value >= 0:
            return str(n.value)
        if isinstance(n, ast.Name) and n.id in names:
            return n.id
        if isinstance(n, ast.BinOp) and isinstance(n.op, (ast.Add, ast.Mult)):
            return f'({go(n.left)} {"+" if isinstance(n.op, ast.Add) else "*"} {go(n.right)})'
        if isinstance(n, ast.Compare) and len(n.ops) == 1:
            a, b = go(n.left), go(n.comparators[0])
            op = n.ops[0]
            if isinstance(op, ast.Eq):
                return f'decide ({a} = {b})'
            if isinstance(op, ast.NotEq):
                return f'decide ({a} ≠ {b})'
            if isinstance(op, ast.Gt):
                return f'decide ({b} < {a})'
            if isinstance(op, ast.GtE):
                return f'decide ({b} ≤ {a})'
            if isinstance(op, ast.Lt):
                return f'decide ({a} < {b})'
            if isinstance(op, ast.LtE):
                return f'decide ({a} ≤ {b})'
        if isinstance(n, ast.BoolOp):
            j = ' || ' if isinstance(n.op, ast.Or) else ' && '
            return '(' + j.join(go(v) for v in n.values) + ')'
        if isinstance(n, ast.UnaryOp) and isinstance(n.op, ast.Not):
            return f'(!{go(n.operand)})'
        raise TranslationError(f'nlist.pyx: expression outside the translated subset: {text!r}')
    return go(tree)


# -- declared C types of the real-valued variables, scalar expressions, acceptance tests, dump format --------------
_REAL_TYPES = {'double': 'double', 'float': 'single', 'long double': 'longdouble', 'np.float64_t': 'double',
               'np.float32_t': 'single', 'cnp.float64_t': 'double', 'cnp.float32_t': 'single',
               'float64': 'double', 'float32': 'single', 'float16': 'single', 'longdouble': 'longdouble'}
_NLIST_REALS = ['cutoff', 'cutoff2', 'binsize', 'corner', 'supermin', 'supermax', 'xbins', 'ybins', 'zbins', 'posv',
                'vects', 'origin', 'newposv', 'ghostpos', 'upos', 'vpos', 'dmag2', 'pos']
_DMAG_REALS = ['pos_0', 'pos_1', 'bvects', 'mag2_test', 'd', 'mag2_dv', 'mag2_d']


def _split_top(text):
    """split at commas that are not inside brackets."""
    out, depth, cur = [], 0, ''
    for ch in text:
        if ch in '([{':
            depth += 1
        elif ch in ')]}':
            depth -= 1
        if ch == ',' and depth == 0:
            out.append(cur)
            cur = ''
        else:
            cur += ch
    if cur.strip():
        out.append(cur)
    return [x.strip() for x in out if x.strip()]


def _real_decls(lines, fname):
    """{variable: declared real type} of one Cython function: its parameters, its `cdef` declarations and the numpy
    arrays it creates with an explicit floating dtype.  `lines`: the code lines of the function (first = signature,
    possibly continued)."""
    import re
    from ..translate import TranslationError
    ty = r'(?P<ty>long double|double|float|c?np\.float(?:32|64)_t)'
    decl = re.compile(r'^(?:const\s+)?' + ty + r'\s*(?:\[[:,\s]*\])?\s+(?P<rest>.+)$')
    out = {}

    def put(name, t):
        t = _REAL_TYPES[t]
        if name in out and out[name] != t:
            raise TranslationError(f'{fname}: {name} declared with two different real types')
        out[name] = t
    # signature
    sig = ''
    k = 0
    while k < len(lines):
        sig += ' ' + lines[k]
        k += 1
        if sig.rstrip().endswith(':') and sig.count('(') == sig.count(')'):
            break
    m = re.match(r'^\s*c?p?def\s+(?:\w+\s+)?' + re.escape(fname) + r'\((?P<params>.*)\)\s*:$', sig.strip(), flags=re.S)
    if not m:
        raise TranslationError(f'{fname}: signature not recognised: {sig.strip()[:120]!r}')
    for prm in _split_top(m.group('params')):
        prm = prm.split('=')[0].strip()
        d = decl.match(prm)
        if d:
            put(d.group('rest').strip(), d.group('ty'))
    for l in lines[k:]:
        if l.startswith('cdef '):
            d = decl.match(l[5:].strip())
            if d:
                for item in _split_top(d.group('rest')):
                    put(item.split('=')[0].strip(), d.group('ty'))
        a = re.match(r'^(?P<name>\w+)\s*=\s*np\.(?:asarray|array|empty|zeros|ones)\(.*dtype\s*=\s*(?:np\.)?[\'"]?(?P<dt>\w+)[\'"]?\s*\)$', l)
        if a and a.group('dt') in _REAL_TYPES:
            put(a.group('name'), a.group('dt'))
    return out


def _function_lines(src, header_re, what):
    """code lines (comments / docstrings removed, stripped) of the top-level function whose first line matches."""
    import re
    from ..translate import TranslationError
    raw = src.splitlines()
    starts = [k for k, l in enumerate(raw) if re.match(header_re, l)]
    if len(starts) != 1:
        raise TranslationError(f'{what}: function header found {len(starts)} times')
    k0 = starts[0]
    end = len(raw)
    for k in range(k0 + 1, len(raw)):
        if raw[k] and not raw[k][0].isspace() and not raw[k].startswith(('#', ')')):
            end = k
            break
    body = '\n'.join(raw[k0:end])
    body = re.sub(r'(\'\'\'|""")(?:.|\n)*?\1', '', body)         # docstrings
    return _code_lines(body)


def _rat_expr(text, names):
    """restricted real expression -> Lean term over Rat: names, int / decimal literals, +, *."""
    import ast
    from ..translate import TranslationError
    try:
        tree = ast.parse(text.strip(), mode='eval').body
    except SyntaxError as e:
        raise TranslationError(f'cannot parse {text!r}: {e}')

    def go(n):
        if isinstance(n, ast.Constant) and isinstance(n.value, (int, float)) and not isinstance(n.value, bool):
            f = Fraction(ast.get_source_segment(text.strip(), n) or repr(n.value))
            return f'(({f.numerator} : Rat) / {f.denominator})' if f.denominator != 1 else f'({f.numerator} : Rat)'
        if isinstance(n, ast.Name) and n.id in names:
            return n.id
        if isinstance(n, ast.BinOp) and isinstance(n.op, (ast.Add, ast.Mult)):
            return f'({go(n.left)} {"+" if isinstance(n.op, ast.Add) else "*"} {go(n.right)})'
        if isinstance(n, ast.BinOp) and isinstance(n.op, ast.Pow) and isinstance(n.right, ast.Constant) and n.right.value == 2:
            return f'({go(n.left)} * {go(n.left)})'
        raise TranslationError(f'expression outside the translated subset: {text!r}')
    return go(tree)


def _cmp_expr(text, subst):
    """one comparison between two of the substituted operands -> Lean Bool term."""
    import ast
    from ..translate import TranslationError
    for a, b in subst.items():
        text = text.replace(a, b)
    try:
        n = ast.parse(text.strip(), mode='eval').body
    except SyntaxError as e:
        raise TranslationError(f'cannot parse {text!r}: {e}')
    ok = set(subst.values())
    if not (isinstance(n, ast.Compare) and len(n.ops) == 1 and isinstance(n.left, ast.Name) and n.left.id in ok
            and isinstance(n.comparators[0], ast.Name) and n.comparators[0].id in ok):
        raise TranslationError(f'test outside the translated subset: {text!r}')
    a, b, op = n.left.id, n.comparators[0].id, n.ops[0]
    table = {ast.Lt: f'decide ({a} < {b})', ast.LtE: f'decide ({a} ≤ {b})', ast.Gt: f'decide ({b} < {a})',
             ast.GtE: f'decide ({b} ≤ {a})', ast.Eq: f'decide ({a} = {b})', ast.NotEq: f'decide ({a} ≠ {b})'}
    if type(op) not in table:
        raise TranslationError(f'test outside the translated subset: {text!r}')
    return table[type(op)]


def _unique(lines, pat, what):
    import re
    from ..translate import TranslationError
    hits = [m for m in (re.fullmatch(pat, l) for l in lines) if m]
    if len(hits) != 1:
        raise TranslationError(f'{what}: /{pat}/ found {len(hits)} times')
    return hits[0]


def _cmt(text):
    """text that is safe inside a Lean doc comment."""
    return text.replace('-/', '- /').replace('/-', '/ -')


def _chars(text):
    return '[' + ', '.join(f'Char.ofNat {ord(ch)}' for ch in text) + ']'


def _fmt_lean(fmt, var):
    """Python %-format string with exactly one integer conversion -> Lean `List Char` term in `var : Nat`."""
    import re
    from ..translate import TranslationError
    m = re.fullmatch(r'(?P<pre>[^%]*)%(?P<w>\d*)(?P<conv>[id])(?P<post>[^%]*)', fmt)
    if not m:
        raise TranslationError(f'NeighborList.dump: format {fmt!r} outside the translated subset')
    num = f'Nat.toDigits 10 {var}'
    if m.group('w'):
        num = f'padLeft {int(m.group("w"))} ({num})'
    parts = ([_chars(m.group('pre'))] if m.group('pre') else []) + [num] + ([_chars(m.group('post'))] if m.group('post') else [])
    return ' ++ '.join(parts)


def _translate_dump():
    """the body of NeighborList.dump, walked as a syntax tree: header writes, one line per atom = index format,
    neighbor format per entry, end of line."""
    import ast
    from ..translate import TranslationError
    tree = ast.parse(cm.source('atomman/core/NeighborList.py'))
    cls = [n for n in tree.body if isinstance(n, ast.ClassDef) and n.name == 'NeighborList']
    fn = [n for n in (cls[0].body if cls else []) if isinstance(n, ast.FunctionDef) and n.name == 'dump']
    if len(fn) != 1:
        raise TranslationError('NeighborList.dump not found')
    body = [n for n in fn[0].body if not (isinstance(n, ast.Expr) and isinstance(n.value, ast.Constant))]   # docstring
    bad = TranslationError('NeighborList.dump no longer has the translated shape')

    def write_arg(n):
        if (isinstance(n, ast.Expr) and isinstance(n.value, ast.Call) and isinstance(n.value.func, ast.Attribute)
                and n.value.func.attr == 'write' and isinstance(n.value.func.value, ast.Name)
                and n.value.func.value.id == 'fp' and len(n.value.args) == 1 and not n.value.keywords):
            return n.value.args[0]
        raise bad

    def fmt_of(n, var):
        a = write_arg(n)
        if (isinstance(a, ast.BinOp) and isinstance(a.op, ast.Mod) and isinstance(a.left, ast.Constant)
                and isinstance(a.left.value, str) and isinstance(a.right, ast.Name) and a.right.id == var):
            return a.left.value
        raise bad

    def const_of(n):
        a = write_arg(n)
        if isinstance(a, ast.Constant) and isinstance(a.value, str):
            return a.value
        raise bad
    if not (len(body) == 1 and isinstance(body[0], ast.With) and len(body[0].items) == 1
            and ast.unparse(body[0].items[0].context_expr) == "open(fname, 'w')"
            and isinstance(body[0].items[0].optional_vars, ast.Name) and body[0].items[0].optional_vars.id == 'fp'):
        raise bad
    wb = body[0].body
    if not wb or not isinstance(wb[-1], ast.For):
        raise bad
    header = ''.join(const_of(n) for n in wb[:-1])
    loop = wb[-1]
    if not (isinstance(loop.target, ast.Name) and loop.target.id == 'i' and ast.unparse(loop.iter) == 'range(len(self))'
            and not loop.orelse and len(loop.body) == 3 and isinstance(loop.body[1], ast.For)):
        raise bad
    inner = loop.body[1]
    if not (isinstance(inner.target, ast.Name) and inner.target.id == 'j' and ast.unparse(inner.iter) == 'self[i]'
            and not inner.orelse and len(inner.body) == 1):
        raise bad
    return {'header': header, 'idx': fmt_of(loop.body[0], 'i'), 'nbr': fmt_of(inner.body[0], 'j'),
            'eol': const_of(loop.body[2])}


def _translate_object():
    """`NeighborList.build` / `__getitem__` / `__len__` / `coord` / `nlist`, walked as syntax trees: the one call of
    `nlist` hands the four arguments on unchanged, column `coord_col` of the returned array is `coord`, the columns from
    `nbr_from` on are the neighbor storage, `[key]` is that storage cut at `coord[key]`."""
    import ast
    import re
    from ..translate import TranslationError
    tree = ast.parse(cm.source('atomman/core/NeighborList.py'))
    cls = [n for n in tree.body if isinstance(n, ast.ClassDef) and n.name == 'NeighborList']
    if len(cls) != 1:
        raise TranslationError('class NeighborList not found')
    fns = {n.name: n for n in cls[0].body if isinstance(n, ast.FunctionDef)}

    def body(name):
        if name not in fns:
            raise TranslationError(f'NeighborList.{name} not found')
        return [ast.unparse(n) for n in fns[name].body
                if not (isinstance(n, ast.Expr) and isinstance(n.value, ast.Constant))]

    def expect(name, stmts):
        if body(name) != stmts:
            raise TranslationError(f'NeighborList.{name} no longer has the translated shape: {body(name)}')
    b = body('build')
    if len(b) != 3 or b[0] != 'self.__nlist = nlist(system, cutoff, initialsize=initialsize, deltasize=deltasize)':
        raise TranslationError(f'NeighborList.build no longer has the translated shape: {b}')
    m = re.fullmatch(r'self\.__coord = self\.__nlist\[:, (\d+)\]', b[1])
    m2 = re.fullmatch(r'self\.__neighbors = self\.__nlist\[:, (\d+):\]', b[2])
    if not m or not m2:
        raise TranslationError(f'NeighborList.build: coord / neighbors split changed: {b[1:]}')
    expect('__init__', ["if 'model' in kwargs:\n    model = kwargs.pop('model')\n    self.load(model, **kwargs)\nelse:\n"
                        "    system = kwargs.pop('system')\n    cutoff = kwargs.pop('cutoff')\n"
                        "    self.build(system, cutoff, **kwargs)"])
    expect('load', _LOAD_BODY)
    expect('__getitem__', ['return self.__neighbors[key, :self.coord[key]]'])
    expect('__len__', ['return len(self.__coord)'])
    expect('coord', ['return self.__coord'])
    expect('nlist', ['return self.__nlist'])
    return {'coord_col': int(m.group(1)), 'nbr_from': int(m2.group(1))}


def _translate_scalars():
    from ..translate import TranslationError
    import re
    nsrc = cm.source('atomman/core/nlist.pyx')
    dsrc = cm.source('atomman/core/dmag.pyx')
    nl = _function_lines(nsrc, r'^def nlist\(', 'nlist.pyx')
    dl = _function_lines(dsrc, r'^cdef dmag2_c\(', 'dmag.pyx')
    nd = _real_decls(nl, 'nlist')
    dd = _real_decls(dl, 'dmag2_c')
    for name in _NLIST_REALS:
        if name not in nd:
            raise TranslationError(f'nlist.pyx: no declaration with a real C type found for `{name}`')
    for name in _DMAG_REALS:
        if name not in dd:
            raise TranslationError(f'dmag.pyx: no declaration with a real C type found for `{name}`')
    g = {}
    g['cutoff2'] = _unique(nl, r'cdef \w+ cutoff2 = (?P<e>.+)', 'nlist.pyx cutoff2').group('e')
    g['binsize'] = _unique(nl, r'binsize = (?P<e>.+)', 'nlist.pyx binsize').group('e')
    g['accept'] = _unique(nl, r'if (?P<e>[^:]*dmag2\[w\][^:]*):', 'nlist.pyx distance test').group('e')
    g['self'] = _unique(nl, r'if (?P<e>(?:uindex|vindex) *\S+ *(?:uindex|vindex)):', 'nlist.pyx self test').group('e')
    g['mintest'] = _unique(dl, r'if (?P<e>[^:]*mag2_test[^:]*):', 'dmag.pyx minimum test').group('e')
    return nd, dd, g


# the statements of `nlist` / `unique_rows2` the model (Atomman/C03.lean) was written from: `<indent>|<statement>`,
# translated holes as `<names>`, real C type names as `<real>` (see `_masked_function`)
_NLIST_TEMPLATE = '''
0|<def_delta,def_init>
4|pos = np.asarray(system.atoms.pos, dtype=<real>)
4|cdef const <real>[:,:] posv = pos
4|cdef const <real>[:,:] vects = system.box.vects
4|cdef const <real>[:] origin = system.box.origin
4|cdef bint pbc_a = system.pbc[0]
4|cdef bint pbc_b = system.pbc[1]
4|cdef bint pbc_c = system.pbc[2]
4|<nbr_init>
4|<bin_init>
4|cdef Py_ssize_t natoms = posv.shape[0]
4|<cutoff2>
4|cdef Py_ssize_t i, j, k, l
4|cdef Py_ssize_t x, y, z
4|cdef <real> corner
4|cdef <real>[:] supermin=np.empty(3)
4|cdef <real>[:] supermax=np.empty(3)
4|cdef <real> binsize
4|cdef <real>[:] xbins, ybins, zbins
4|cdef Py_ssize_t numxbins, numybins, numzbins
4|cdef long long [:] atomindex
4|cdef long long [:,:] newxyzindex
4|cdef long long [:] newatomindex
4|cdef Py_ssize_t xl, xh, yl, yh, zl, zh
4|cdef <real>[:,:] ghostpos = np.empty((0, 3))
4|cdef <real>[:,:] newghostpos
4|newpos = np.empty(pos.shape)
4|cdef <real>[:,:] newposv = newpos
4|cdef long long[:] ghostindex = np.empty(0, dtype=np.int64)
4|cdef long long[:] newindex = np.empty(posv.shape[0], dtype=np.int64)
4|cdef long long[:] newghostindex
4|cdef long long [:,:] xyzghostindex
4|cdef Py_ssize_t maxc, c, n
4|cdef Py_ssize_t dc, dx, dy, dz
4|cdef long long[:, :, :, :] xyzbins, newbins
4|cdef Py_ssize_t uindex, vindex, u, v, w
4|cdef long long [:] shortlist, longlist, superlonglist
4|cdef bint end
4|cdef <real>[:,:] upos, vpos
4|cdef <real>[:] dmag2
4|cdef Py_ssize_t uj, vj,
4|<nbr_init_width>
4|for i in range(natoms):
8|neighbors[i, 0] = 0
4|cdef long long[:, :] newneighbors
4|cdef bint new
4|for j in range(3):
8|supermin[j] = origin[j]
8|supermax[j] = origin[j]
4|<cornerloop>
8|<cornerloop>
12|<cornerloop>
16|for j in range(3):
20|<corner>
20|<supertest>
24|supermin[j] = corner
20|<supertest>
24|supermax[j] = corner
4|for j in range(3):
8|<pad>
8|<pad>
4|<binsize>
4|<arange>
4|<arange>
4|<arange>
4|numxbins = len(xbins)
4|numybins = len(ybins)
4|numzbins = len(zbins)
4|<digitize>
4|<digitize>
4|<digitize>
4|xyzindex = np.hstack((xindex[:, np.newaxis], yindex[:, np.newaxis], zindex[:, np.newaxis]))
4|atomindex = np.arange(natoms, dtype=np.int64)
4|if pbc_a:
8|<shiftrange>
4|else:
8|<shiftrange>
4|if pbc_b:
8|<shiftrange>
4|else:
8|<shiftrange>
4|if pbc_c:
8|<shiftrange>
4|else:
8|<shiftrange>
4|for x in range(xl, xh):
8|for y in range(yl, yh):
12|for z in range(zl, zh):
16|<ghostskip>
20|pass
16|else:
20|k=0
20|for i in range(posv.shape[0]):
24|for j in range(3):
28|<ghostcoord>
24|<insuper>
28|<insuper>
28|<insuper>
28|newindex[k] = i
28|k += 1
20|ghostpos = np.vstack((ghostpos, newpos[newindex[:k]]))
20|ghostindex = np.hstack((ghostindex, newindex[:k]))
4|if len(ghostpos) > 0:
8|<digitize>
8|<digitize>
8|<digitize>
8|xyzghostindex = np.hstack((xindex[:, np.newaxis],
35|yindex[:, np.newaxis],
35|zindex[:, np.newaxis]))
8|xyzindex = np.vstack((xyzindex, xyzghostindex))
8|atomindex = np.hstack((atomindex, ghostindex))
4|realbins = unique_rows2(np.ascontiguousarray(xyzindex))
4|maxc = 0
4|<bin_init_width>
4|for n in range(atomindex.shape[0]):
8|x, y, z = xyzindex[n]
8|c = xyzbins[x, y, z, 0] + 1
8|<bin_trigger>
12|<bin_width>
12|for i in range(xyzbins.shape[0]):
16|for j in range(xyzbins.shape[1]):
20|for k in range(xyzbins.shape[2]):
24|<bin_copy>
28|newbins[i, j, k, l] = xyzbins[i, j, k, l]
12|xyzbins = newbins
12|<bin_grow>
8|if c > maxc:
12|maxc = c
8|xyzbins[x, y, z, 0] = c
8|xyzbins[x, y, z, c] = atomindex[n]
4|superlonglist = np.empty(14 * maxc, dtype=np.int64)
4|for i in range(len(realbins)):
8|x, y, z = realbins[i]
8|c = xyzbins[x, y, z, 0]
8|shortlist = np.empty(c, dtype=np.int64)
8|for j in range(c):
12|shortlist[j] = xyzbins[x, y, z, j+1]
12|superlonglist[j] = shortlist[j]
8|end = False
8|<stencilloop>
12|<stencilloop>
16|<stencilloop>
20|<centre>
24|end = True
24|break
20|<skip>
24|<skip>
24|<skip>
24|continue
20|dc = xyzbins[x + dx, y + dy, z + dz, 0]
20|for j in range(dc):
24|superlonglist[c+j] = xyzbins[x + dx, y + dy, z + dz, j+1]
20|c += dc
16|if end:
20|break
12|if end:
16|break
8|longlist = superlonglist[:c]
8|for u in range(shortlist.shape[0]):
12|uindex = shortlist[u]
12|upos = np.empty((longlist.shape[0]-u-1, 3))
12|vpos = np.empty((longlist.shape[0]-u-1, 3))
12|<vstart>
16|for j in range(3):
20|vindex = longlist[v]
20|upos[w, j] = posv[uindex, j]
20|vpos[w, j] = posv[vindex, j]
12|dmag2 = dmag2_c(upos, vpos, vects, pbc_a, pbc_b, pbc_c)
12|<vstart>
16|<accept>
20|vindex = longlist[v]
20|<selftest>
24|new = True
24|uj = -1
24|vj = -1
24|<scan>
28|<scantest>
32|new = False
32|break
28|<scantest>
32|uj = j
32|break
24|if uj == -1:
28|<jdefault>
24|if new:
28|<scan>
32|<scantest>
36|vj = j
36|break
28|if vj == -1:
32|<jdefault>
28|neighbors[uindex, 0] += 1
28|neighbors[vindex, 0] += 1
28|<nbr_trigger>
32|<nbr_width>
32|for j in range(neighbors.shape[0]):
36|<nbr_copy>
40|newneighbors[j, k] = neighbors[j, k]
32|neighbors = newneighbors
32|<nbr_grow>
28|for j in range(neighbors[uindex, 0], uj - 1, -1):
32|neighbors[uindex, j] = neighbors[uindex, j - 1]
28|for j in range(neighbors[vindex, 0], vj - 1, -1):
32|neighbors[vindex, j] = neighbors[vindex, j - 1]
28|neighbors[uindex, uj] = vindex
28|neighbors[vindex, vj] = uindex
4|return np.asarray(neighbors)
0|def unique_rows2(a):
4|return np.unique(a.view(np.dtype((np.void, a.dtype.itemsize*a.shape[1])))).view(a.dtype).reshape(-1, a.shape[1])
'''

_DMAG_TEMPLATE = '''
0|cdef dmag2_c(const <real>[:,:] pos_0,
13|const <real>[:,:] pos_1,
13|const <real>[:,:] bvects,
13|const bint pbc_x,
13|const bint pbc_y,
13|const bint pbc_z):
4|cdef Py_ssize_t ni = pos_0.shape[0]
4|cdef Py_ssize_t nj = 3
4|cdef Py_ssize_t i, j, x, y, z, xl, xh, yl, yh, zl, zh
4|cdef <real> mag2_test
4|cdef <real>[:] d = np.empty(3, dtype=<real>)
4|mag2_d = np.empty(ni, dtype=<real>)
4|cdef <real> [:] mag2_dv = mag2_d
4|if pbc_x:
8|xl, xh = -1, 2
4|else:
8|xl, xh = 0, 1
4|if pbc_y:
8|yl, yh = -1, 2
4|else:
8|yl, yh = 0, 1
4|if pbc_z:
8|zl, zh = -1, 2
4|else:
8|zl, zh = 0, 1
4|for i in range(ni):
8|for j in range(nj):
12|d[j] = pos_1[i,j] - pos_0[i,j]
8|mag2_dv[i] = d[0] * d[0] + d[1] * d[1] + d[2] * d[2]
8|for x in range(xl, xh):
12|for y in range(yl, yh):
16|for z in range(zl, zh):
20|if x == 0 and y == 0 and z == 0:
24|continue
20|for j in range(nj):
24|d[j] = (pos_1[i,j] - pos_0[i,j]
32|+ x * bvects[0,j]
32|+ y * bvects[1,j]
32|+ z * bvects[2,j])
20|mag2_test = d[0] * d[0] + d[1] * d[1] + d[2] * d[2]
20|<mintest>
24|mag2_dv[i] = mag2_test
4|return mag2_d
'''

_LOAD_BODY = [
    'nterms = 0', 'natoms = 0',
    "with uber_open_rmode(model) as fin:\n    for line in fin:\n        line = line.decode('UTF-8')\n"
    "        terms = line.split()\n        n_n = len(terms)\n        if terms[0][0] != '#' and n_n > 0:\n"
    "            natoms += 1\n            if n_n > nterms:\n                nterms = n_n\n"
    "    self.__nlist = np.empty((natoms, nterms + 1), dtype=int)\n    self.__coord = self.__nlist[:, 0]\n"
    "    self.__neighbors = self.__nlist[:, 1:]\n    self.__coord[:] = 0\n    fin.seek(0)\n    for line in fin:\n"
    "        line = line.decode('UTF-8')\n        terms = line.split()\n"
    "        if len(terms) > 0 and terms[0][0] != '#':\n            i = int(terms[0])\n"
    "            self.__coord[i] = len(terms) - 1\n            for j in range(1, len(terms)):\n"
    "                self.__neighbors[i, j - 1] = terms[j]"]


# -- whole-function pins: the model was written against these statements, in this order and nesting ----------------
_SCALAR_HOLES = [r'cdef \w+ cutoff2 = (?P<cutoff2>.+)', r'binsize = (?P<binsize>.+)',
                 r'if (?P<accept>[^:]*dmag2\[w\][^:]*):', r'if (?P<selftest>(?:uindex|vindex) *\S+ *(?:uindex|vindex)):']
# round 5: the statements read from the syntax tree by `_translate_source` (Generated/NlistSource.lean): their content is a
# proof obligation (gen_…_eq_model), so the statement pin only keeps their place
_SRC_HOLES = [
    r'def nlist\(system, [\w ]+ cutoff, Py_ssize_t initialsize=(?P<def_init>\d+), Py_ssize_t deltasize=(?P<def_delta>\d+)\):',
    r'corner = (?P<corner>.+)',
    r'if (?P<supertest>corner .+ super(?:min|max)\[j\]):',
    r'super(?:min|max)\[j\] [-+]= (?P<pad>.+)',
    r'[xyz]bins = np\.arange\((?P<arange>.+)\)',
    r'[xyz]index = np\.digitize\((?P<digitize>.+)',
    r'[xyz]l, [xyz]h = (?P<shiftrange>.+)',
    r'for [xyz] in range\((?P<cornerloop>\d+, \d+)\):',
    r'if (?P<ghostskip>x\b.*\by\b.*\bz\b.*):',
    r'newposv\[i, j\] = (?P<ghostcoord>.+)',
    r'if \((?P<insuper>\s*newposv\[i, 0\].*)',
    r'and (?P<insuper>newposv\[i, [12]\].*)',
    r'for d[xyz] in range\((?P<stencilloop>-?\d+, -?\d+)\):',
    r'if (?P<centre>dx\b.*\bdy\b.*\bdz\b.*):',
    r'if \((?P<skip>x \+ dx.*)',
    r'(?P<skip>[yz] \+ d[yz] .*)',
    r'for w, v in enumerate\(range\((?P<vstart>.+), longlist\.shape\[0\]\)\):',
    r'for j in range\((?P<scan>.+, neighbors\[[uv]index, 0\].*)\):',
    r'(?:el)?if (?P<scantest>neighbors\[[uv]index, j\] .+):',
    r'[uv]j = (?P<jdefault>neighbors\[[uv]index, 0\] .+)',
]
_REAL_WORD = r'\b(?:long double|double|float|c?np\.float(?:32|64)_t|np\.float(?:16|32|64)|np\.longdouble)\b'


def _masked_function(src, header_re, what, src_holes=False):
    """the code lines of one top-level function as `<indent>|<text>`: comments, docstrings and blank lines removed,
    indentation kept (so that a statement moved into / out of a loop or branch shows), every line the translator turns
    into a Lean definition replaced by the names of its holes, every real C type name by `<real>` (the declared types
    are an obligation of their own: src_reals_double)."""
    import re
    from ..translate import TranslationError
    raw = src.splitlines()
    starts = [k for k, l in enumerate(raw) if re.match(header_re, l)]
    if len(starts) != 1:
        raise TranslationError(f'{what}: function header found {len(starts)} times')
    k0 = starts[0]
    end = len(raw)
    for k in range(k0 + 1, len(raw)):
        if raw[k] and not raw[k][0].isspace() and not raw[k].startswith(('#', ')')):
            end = k
            break
    body = '\n'.join(raw[k0:end])
    body = re.sub(r'(\'\'\'|""")(?:.|\n)*?\1', '', body)
    rows = []
    for l in body.splitlines():
        l = re.sub(r'#.*$', '', l).rstrip()
        if l.strip():
            rows.append((len(l) - len(l.lstrip()), l.strip()))
    texts = [t for _, t in rows]
    mask = {}
    for block in (_BIN_BLOCK, _NBR_BLOCK):          # holes of the growth blocks: by position inside the matched block
        for k in range(len(texts) - len(block) + 1):
            ms = [re.fullmatch(pat, texts[k + off]) for off, pat in enumerate(block)]
            if all(ms):
                for off, m in enumerate(ms):
                    if m.groupdict():
                        mask[k + off] = '<' + ','.join(sorted(m.groupdict())) + '>'
    for k, t in enumerate(texts):                    # the single statements and scalar tests: by their own shape
        for pat in _SINGLE + _SCALAR_HOLES + (_SRC_HOLES if src_holes else []):
            m = re.fullmatch(pat, t)
            if m:
                mask[k] = '<' + ','.join(sorted(m.groupdict())) + '>'
    return [f'{ind}|{mask.get(k) or re.sub(_REAL_WORD, "<real>", t)}' for k, (ind, t) in enumerate(rows)]


def _pin_statements():
    """`nlist` and `unique_rows2` of nlist.pyx, statement by statement, against the source the model was written from
    (`_NLIST_TEMPLATE`).  An extra branch (a fast path with its own `return`), another way of collecting the occupied
    bins, a changed loop bound — anything that is not one of the translated holes — is outside the translated subset."""
    from ..translate import TranslationError
    src = cm.source('atomman/core/nlist.pyx')
    got = _masked_function(src, r'^def nlist\(', 'nlist.pyx: nlist', src_holes=True) \
        + _masked_function(src, r'^def unique_rows2\(', 'nlist.pyx: unique_rows2')
    want = [l for l in _NLIST_TEMPLATE.splitlines() if l.strip()]
    for k in range(max(len(got), len(want))):
        g = got[k] if k < len(got) else '<end of function>'
        w = want[k] if k < len(want) else '<end of function>'
        if g != w:
            raise TranslationError(f'nlist.pyx: statement {k + 1} of nlist / unique_rows2 is not the modelled one: '
                                   f'source has {g.split("|", 1)[-1]!r}, the model was written for {w.split("|", 1)[-1]!r}')
    # the distance routine the sweep calls: the model's `dmag2` (Atomman/Dvect.lean) is the running minimum over the
    # plain separation and the 26 / 8 / 2 shifted ones, nothing else (no branch on the shape of the cell)
    import re
    got = [re.sub(r'\|if [^:]*mag2_test[^:]*:$', '|<mintest>', l)
           for l in _masked_function(cm.source('atomman/core/dmag.pyx'), r'^cdef dmag2_c\(', 'dmag.pyx: dmag2_c')]
    want = [l for l in _DMAG_TEMPLATE.splitlines() if l.strip()]
    for k in range(max(len(got), len(want))):
        g = got[k] if k < len(got) else '<end of function>'
        w = want[k] if k < len(want) else '<end of function>'
        if g != w:
            raise TranslationError(f'dmag.pyx: statement {k + 1} of dmag2_c is not the modelled one: source has '
                                   f'{g.split("|", 1)[-1]!r}, the model was written for {w.split("|", 1)[-1]!r}')

# ----------------------------------------------------------------------------------------
# translator, part 2 (round 5): the geometry and the insertion of nlist.pyx as Lean definitions
#   -> lean/Atomman/Generated/NlistSource.lean.   nlist.pyx is turned into plain python (typed parameters -> names,
#   `cdef T name = e` -> `name = e`, other `cdef` lines -> `pass`), parsed with `ast`, and the statements the model depends
#   on are located in the syntax tree by what they assign / test and by the loops around them.
# ----------------------------------------------------------------------------------------
def _decython(src, name):
    import re
    from ..translate import TranslationError
    raw = src.splitlines()
    starts = [k for k, l in enumerate(raw) if re.match(r'^def %s\(' % name, l)]
    if len(starts) != 1:
        raise TranslationError(f'nlist.pyx: `def {name}(` found {len(starts)} times')
    k0 = starts[0]
    end = len(raw)
    for k in range(k0 + 1, len(raw)):
        if raw[k] and not raw[k][0].isspace() and not raw[k].startswith(('#', ')')):
            end = k
            break
    out = []
    for l in raw[k0:end]:
        s = l.strip()
        ind = l[:len(l) - len(l.lstrip())]
        if s.startswith('def %s(' % name):
            m = re.match(r'def \w+\((.*)\):$', s)
            if not m:
                raise TranslationError(f'nlist.pyx: signature of {name} not on one line')
            ps = []
            for p in _split_top(m.group(1)):
                lhs, eq, rhs = p.partition('=')
                ps.append(lhs.split()[-1] + (eq + rhs.strip() if eq else ''))
            out.append(ind + 'def %s(%s):' % (name, ', '.join(ps)))
        elif s.startswith('cdef '):
            m = re.match(r'cdef\s+(?:const\s+)?[\w ]+?(?:\s*\[[:,\s]*\])?\s+(\w+)\s*=\s*(.+)$', s)
            out.append(ind + (m.group(1) + ' = ' + m.group(2) if m else 'pass'))
        else:
            out.append(l)
    return '\n'.join(out)


def _src_tree():
    import ast
    from ..translate import TranslationError
    try:
        tree = ast.parse(_decython(cm.source('atomman/core/nlist.pyx'), 'nlist'))
    except SyntaxError as e:
        raise TranslationError(f'nlist.pyx: not readable as python after removing the C declarations: {e}')
    fn = tree.body[0]
    parent = {}

    def link(n):
        for ch in ast.iter_child_nodes(n):
            parent[ch] = n
            link(ch)
    link(fn)
    return fn, parent


def _dfs(node):
    import ast
    yield node
    for ch in ast.iter_child_nodes(node):
        yield from _dfs(ch)


def _lx(node, env, kind):
    """python expression -> Lean term.  `env`: {unparsed sub-expression: Lean term}.  kind 'rat' | 'int' | 'nat':
    literals are typed accordingly; '-' is refused on 'nat'."""
    import ast
    from ..translate import TranslationError
    ty = {'rat': 'Rat', 'int': 'Int', 'nat': 'Nat'}[kind]

    def go(n):
        key = ast.unparse(n)
        if key in env:
            return env[key]
        if isinstance(n, ast.Constant) and isinstance(n.value, (int, float)) and not isinstance(n.value, bool):
            if isinstance(n.value, float) and kind != 'rat':
                raise TranslationError(f'nlist.pyx: real literal in an integer expression: {key!r}')
            f = Fraction(repr(n.value)) if isinstance(n.value, float) else Fraction(n.value)
            if f < 0 and kind == 'nat':
                raise TranslationError(f'nlist.pyx: negative literal in a count: {key!r}')
            return f'(({f.numerator} : {ty}) / {f.denominator})' if f.denominator != 1 else f'({f.numerator} : {ty})'
        if isinstance(n, ast.UnaryOp) and isinstance(n.op, ast.USub) and isinstance(n.operand, ast.Constant) and kind != 'nat':
            return f'(-{go(n.operand)})'
        if isinstance(n, ast.BinOp) and isinstance(n.op, (ast.Add, ast.Mult)):
            return f'({go(n.left)} {"+" if isinstance(n.op, ast.Add) else "*"} {go(n.right)})'
        if isinstance(n, ast.BinOp) and isinstance(n.op, ast.Sub) and kind != 'nat':
            return f'({go(n.left)} - {go(n.right)})'
        if isinstance(n, ast.Compare) and len(n.ops) == 1:
            a, b, op = go(n.left), go(n.comparators[0]), n.ops[0]
            table = {ast.Lt: f'decide ({a} < {b})', ast.LtE: f'decide ({a} ≤ {b})', ast.Gt: f'decide ({b} < {a})',
                     ast.GtE: f'decide ({b} ≤ {a})', ast.Eq: f'decide ({a} = {b})', ast.NotEq: f'decide ({a} ≠ {b})'}
            if type(op) in table:
                return table[type(op)]
        if isinstance(n, ast.BoolOp):
            j = ' || ' if isinstance(n.op, ast.Or) else ' && '
            return '(' + j.join(go(v) for v in n.values) + ')'
        if isinstance(n, ast.UnaryOp) and isinstance(n.op, ast.Not):
            return f'(!{go(n.operand)})'
        raise TranslationError(f'nlist.pyx: expression outside the translated subset: {key!r}')
    return go(node)


def _int_range(call, what):
    """`range(a, b)` with integer literals -> (a, b)."""
    import ast
    from ..translate import TranslationError
    try:
        if isinstance(call, ast.Call) and ast.unparse(call.func) == 'range' and not call.keywords and 1 <= len(call.args) <= 2:
            vals = [ast.literal_eval(a) for a in call.args]
            if all(isinstance(v, int) and not isinstance(v, bool) for v in vals):
                return (0, vals[0]) if len(vals) == 1 else (vals[0], vals[1])
    except ValueError:
        pass
    raise TranslationError(f'nlist.pyx: {what}: loop bounds are not integer literals: {ast.unparse(call)!r}')


def _loops_around(node, parent):
    """the `for` statements around a node, outermost first."""
    import ast
    out = []
    while node in parent:
        node = parent[node]
        if isinstance(node, ast.For):
            out.append(node)
    return out[::-1]


def _one(nodes, what):
    from ..translate import TranslationError
    nodes = list(nodes)
    if len(nodes) != 1:
        raise TranslationError(f'nlist.pyx: {what} found {len(nodes)} times')
    return nodes[0]


def _translate_source():
    import ast
    from ..translate import TranslationError
    fn, parent = _src_tree()
    U = ast.unparse
    nodes = list(_dfs(fn))
    L = ['/- GENERATED by harness/props/c03.py from atomman/core/nlist.pyx and atomman/core/NeighborList.py — do not edit.',
         '   The superbox, the bins, the ghost images, the stencil of the sweep and the tests of the sorted insertion,',
         '   each as the expression / loop bounds / test that stands in the source (read from its syntax tree). -/',
         'namespace Atomman.C03.Src', '',
         '/-- `range(lo, hi)` -/',
         'def rangeI (lo hi : Int) : List Int := (List.range (hi - lo).toNat).map fun (k : Nat) => lo + (k : Int)', '']

    # --- defaults of the storage sizes: nlist, NeighborList.build
    names = [a.arg for a in fn.args.args]
    if names != ['system', 'cutoff', 'initialsize', 'deltasize'] or len(fn.args.defaults) != 2 or fn.args.kwonlyargs:
        raise TranslationError(f'nlist.pyx: parameters of nlist are {names}')
    dfl = [ast.literal_eval(d) for d in fn.args.defaults]
    tree = ast.parse(cm.source('atomman/core/NeighborList.py'))
    cls = [n for n in tree.body if isinstance(n, ast.ClassDef) and n.name == 'NeighborList']
    bld = [n for n in (cls[0].body if cls else []) if isinstance(n, ast.FunctionDef) and n.name == 'build']
    if len(bld) != 1:
        raise TranslationError('NeighborList.build not found')
    bnames = [a.arg for a in bld[0].args.args]
    if bnames != ['self', 'system', 'cutoff', 'initialsize', 'deltasize'] or len(bld[0].args.defaults) != 2:
        raise TranslationError(f'NeighborList.build: parameters are {bnames}')
    bdfl = [ast.literal_eval(d) for d in bld[0].args.defaults]
    for v in dfl + bdfl:
        if not (isinstance(v, int) and not isinstance(v, bool) and v >= 0):
            raise TranslationError(f'default storage size {v!r} is not a count')
    L += ['/-! ### defaults of `initialsize` / `deltasize` -/',
          f'/-- `def nlist(system, cutoff, initialsize={dfl[0]}, deltasize={dfl[1]})` -/',
          f'def defInitialsize : Nat := {dfl[0]}', f'def defDeltasize : Nat := {dfl[1]}',
          f'/-- `def build(self, system, cutoff, initialsize={bdfl[0]}, deltasize={bdfl[1]})` -/',
          f'def buildDefInitialsize : Nat := {bdfl[0]}', f'def buildDefDeltasize : Nat := {bdfl[1]}', '']

    # --- superbox: corner loops, corner expression, min / max tests, padding
    corner = _one([n for n in nodes if isinstance(n, ast.Assign) and U(n.targets[0]) == 'corner'], '`corner = …`')
    loops = _loops_around(corner, parent)
    if len(loops) != 4 or [U(l.target) for l in loops][3] != 'j' or U(loops[3].iter) != 'range(3)' \
            or sorted(U(l.target) for l in loops[:3]) != ['x', 'y', 'z']:
        raise TranslationError('nlist.pyx: the loops around `corner = …` are not three coefficient loops and `for j in range(3)`')
    env = {'origin[j]': 'o', 'vects[0, j]': 'v0', 'vects[1, j]': 'v1', 'vects[2, j]': 'v2', 'x': 'x', 'y': 'y', 'z': 'z'}
    L += ['/-! ### superbox -/', f'/-- `corner = {_cmt(U(corner.value))}` -/',
          f'def cornerOf (o v0 v1 v2 x y z : Rat) : Rat := {_lx(corner.value, env, "rat")}']
    rngs = [(U(l.target), _int_range(l.iter, 'corner loops')) for l in loops[:3]]
    body = '((x : Rat), (y : Rat), (z : Rat))'
    expr = ''
    for d, (v, (lo, hi)) in enumerate(rngs):
        expr += f'(rangeI ({lo}) ({hi})).{"map" if d == 2 else "flatMap"} fun ({v} : Int) => '
    L += ['/-- the coefficient triples `(x, y, z)` in the order of the loops: '
          + ', '.join(f'`for {v} in range({lo}, {hi})`' for v, (lo, hi) in rngs) + ' -/',
          f'def cornerLoop : List (Rat × Rat × Rat) := {expr}{body}']
    inner = loops[3].body
    if len(inner) != 3 or inner[0] is not corner or not all(isinstance(s, ast.If) and not s.orelse and len(s.body) == 1 for s in inner[1:]):
        raise TranslationError('nlist.pyx: the corner loop body is not `corner = …; if …: supermin[j] = corner; if …: supermax[j] = corner`')
    for s, arr, nm in ((inner[1], 'supermin', 'superMinTest'), (inner[2], 'supermax', 'superMaxTest')):
        if U(s.body[0]) != f'{arr}[j] = corner':
            raise TranslationError(f'nlist.pyx: corner loop: expected `{arr}[j] = corner`, found {U(s.body[0])!r}')
        L += [f'/-- `if {_cmt(U(s.test))}: {arr}[j] = corner` (`m` = `{arr}[j]`) -/',
              f'def {nm} (corner m : Rat) : Bool := {_lx(s.test, {"corner": "corner", arr + "[j]": "m"}, "rat")}']
    for arr, nm in (('supermin', 'superLo'), ('supermax', 'superHi')):
        aug = _one([n for n in nodes if isinstance(n, ast.AugAssign) and U(n.target) == f'{arr}[j]'], f'`{arr}[j] ±= …`')
        if not isinstance(aug.op, (ast.Add, ast.Sub)) or U(_loops_around(aug, parent)[-1].iter) != 'range(3)':
            raise TranslationError(f'nlist.pyx: padding of {arr} outside the translated subset: {U(aug)!r}')
        L += [f'/-- `{_cmt(U(aug))}` (`m` = `{arr}[j]` before) -/',
              f'def {nm} (m cutoff : Rat) : Rat := m {"+" if isinstance(aug.op, ast.Add) else "-"} {_lx(aug.value, {"cutoff": "cutoff"}, "rat")}']
    L.append('')

    # --- bins: arange arguments, digitize offset
    stops = set()
    for k, ax in enumerate('xyz'):
        a = _one([n for n in nodes if isinstance(n, ast.Assign) and U(n.targets[0]) == f'{ax}bins'], f'`{ax}bins = …`')
        c = a.value
        if not (isinstance(c, ast.Call) and U(c.func) == 'np.arange' and len(c.args) == 3 and not c.keywords
                and U(c.args[0]) == f'supermin[{k}]' and U(c.args[2]) == 'binsize'):
            raise TranslationError(f'nlist.pyx: `{U(a)}` is not np.arange(supermin[{k}], <stop>, binsize)')
        stops.add(_lx(c.args[1], {f'supermax[{k}]': 'hi', 'binsize': 'c'}, 'rat'))
        n_ = _one([n for n in nodes if isinstance(n, ast.Assign) and U(n.targets[0]) == f'num{ax}bins'], f'`num{ax}bins = …`')
        if U(n_.value) != f'len({ax}bins)':
            raise TranslationError(f'nlist.pyx: `{U(n_)}` is not len({ax}bins)')
    if len(stops) != 1:
        raise TranslationError(f'nlist.pyx: the three np.arange calls have different stop expressions: {sorted(stops)}')
    offs = set()
    idx = [n for n in nodes if isinstance(n, ast.Assign) and U(n.targets[0]) in ('xindex', 'yindex', 'zindex')]
    if len(idx) != 6:
        raise TranslationError(f'nlist.pyx: {len(idx)} assignments to xindex / yindex / zindex (expected 3 real + 3 ghost)')
    for a in idx:
        ax = U(a.targets[0])[0]
        k = 'xyz'.index(ax)
        v = a.value
        ok = (isinstance(v, ast.BinOp) and isinstance(v.op, ast.Sub) and isinstance(v.left, ast.Call)
              and U(v.left.func) == 'np.digitize' and len(v.left.args) == 2 and not v.left.keywords
              and U(v.left.args[0]) in (f'pos[:, {k}]', f'ghostpos[:, {k}]') and U(v.left.args[1]) == f'{ax}bins'
              and isinstance(v.right, ast.Constant) and isinstance(v.right.value, int))
        if not ok:
            raise TranslationError(f'nlist.pyx: `{U(a)}` is not np.digitize(<pos>[:, {k}], {ax}bins) - <int>')
        offs.add(v.right.value)
    if len(offs) != 1:
        raise TranslationError(f'nlist.pyx: different offsets after np.digitize: {sorted(offs)}')
    L += ['/-! ### bins -/', '/-- second argument of `np.arange(supermin[k], …, binsize)` (`hi` = `supermax[k]`, `c` = `binsize`) -/',
          f'def arangeStop (hi c : Rat) : Rat := {stops.pop()}',
          '/-- `np.digitize(…, bins) - k` (all six calls) -/', f'def digitizeOffset : Int := {offs.pop()}', '']

    # --- ghost images: shift ranges per periodic flag, loop nest, skip test, image coordinate, superbox test
    rng_of = {}
    for flag, (lo, hi) in (('pbc_a', ('xl', 'xh')), ('pbc_b', ('yl', 'yh')), ('pbc_c', ('zl', 'zh'))):
        iff = _one([n for n in fn.body if isinstance(n, ast.If) and U(n.test) == flag], f'`if {flag}:`')
        if len(iff.body) != 1 or len(iff.orelse) != 1:
            raise TranslationError(f'nlist.pyx: `if {flag}:` has more than one statement per branch')
        pair = []
        for st in (iff.body[0], iff.orelse[0]):
            if not (isinstance(st, ast.Assign) and U(st.targets[0]) == f'({lo}, {hi})'):
                raise TranslationError(f'nlist.pyx: `if {flag}:` does not set {lo}, {hi}: {U(st)!r}')
            v = ast.literal_eval(st.value)
            if not (isinstance(v, tuple) and len(v) == 2 and all(isinstance(t, int) for t in v)):
                raise TranslationError(f'nlist.pyx: shift range {U(st.value)!r} is not two integer literals')
            pair.append(v)
        rng_of[(lo, hi)] = pair
    if len({str(v) for v in rng_of.values()}) != 1:
        raise TranslationError(f'nlist.pyx: the three periodic flags give different shift ranges: {rng_of}')
    (tlo, thi), (flo, fhi) = next(iter(rng_of.values()))
    L += ['/-! ### ghost images -/', f'/-- `if pbc: lo, hi = {tlo}, {thi}  else: lo, hi = {flo}, {fhi}` (the same for the three flags) -/',
          f'def shiftRange (p : Bool) : Int × Int := if p then (({tlo}), ({thi})) else (({flo}), ({fhi}))']
    gp = _one([n for n in nodes if isinstance(n, ast.Assign) and U(n.targets[0]) == 'newposv[i, j]'], '`newposv[i, j] = …`')
    loops = _loops_around(gp, parent)
    if len(loops) != 5 or [U(l.target) for l in loops[3:]] != ['i', 'j'] or U(loops[4].iter) != 'range(3)' \
            or U(loops[3].iter) != 'range(posv.shape[0])' or sorted(U(l.target) for l in loops[:3]) != ['x', 'y', 'z']:
        raise TranslationError('nlist.pyx: the loops around `newposv[i, j] = …` are not three shift loops, the atom loop and `for j in range(3)`')
    flag_of = {'(xl, xh)': 'pa', '(yl, yh)': 'pb', '(zl, zh)': 'pc'}
    want_var = {'(xl, xh)': 'x', '(yl, yh)': 'y', '(zl, zh)': 'z'}
    expr = ''
    doc = []
    for d, l in enumerate(loops[:3]):
        if not (isinstance(l.iter, ast.Call) and U(l.iter.func) == 'range' and len(l.iter.args) == 2):
            raise TranslationError(f'nlist.pyx: ghost loop bounds: {U(l.iter)!r}')
        key = f'({U(l.iter.args[0])}, {U(l.iter.args[1])})'
        if key not in flag_of or want_var[key] != U(l.target):
            raise TranslationError(f'nlist.pyx: ghost loop `for {U(l.target)} in {U(l.iter)}` does not run over its own shift range')
        p = flag_of[key]
        expr += f'(rangeI (shiftRange {p}).1 (shiftRange {p}).2).{"map" if d == 2 else "flatMap"} fun ({U(l.target)} : Int) => '
        doc.append(f'`for {U(l.target)} in {U(l.iter)}`')
    # the branch that does the work
    iff = parent[loops[3]]
    if not (isinstance(iff, ast.If) and parent[iff] is loops[2]):
        raise TranslationError('nlist.pyx: the atom loop of the ghost construction is not inside one `if` under the three shift loops')
    env = {'x': 'x', 'y': 'y', 'z': 'z'}
    if loops[3] in iff.orelse and [type(s) for s in iff.body] == [ast.Pass]:
        keep = f'!({_lx(iff.test, env, "int")})'
    elif loops[3] in iff.body and not iff.orelse:
        keep = _lx(iff.test, env, 'int')
    else:
        raise TranslationError('nlist.pyx: branch structure of the ghost construction outside the translated subset')
    L += [f'/-- `if {_cmt(U(iff.test))}: pass  else: <build the images>` -/',
          f'def ghostKeep (x y z : Int) : Bool := {keep}',
          '/-- the shifts for which images are built, in loop order: ' + ', '.join(doc) + ' -/',
          f'def ghostShifts (pa pb pc : Bool) : List (Int × Int × Int) := ({expr}(x, y, z)).filter fun s => ghostKeep s.1 s.2.1 s.2.2']
    env = {'x': '(x : Rat)', 'y': '(y : Rat)', 'z': '(z : Rat)', 'vects[0, j]': 'v0', 'vects[1, j]': 'v1', 'vects[2, j]': 'v2',
           'posv[i, j]': 'p'}
    L += [f'/-- `newposv[i, j] = {_cmt(U(gp.value))}` -/',
          f'def ghostCoord (x y z : Int) (v0 v1 v2 p : Rat) : Rat := {_lx(gp.value, env, "rat")}']
    atom_body = loops[3].body
    if len(atom_body) != 2 or atom_body[0] is not loops[4] or not isinstance(atom_body[1], ast.If) or atom_body[1].orelse \
            or [U(s) for s in atom_body[1].body] != ['newindex[k] = i', 'k += 1']:
        raise TranslationError('nlist.pyx: the atom loop of the ghost construction is not `for j …; if <inside>: newindex[k] = i; k += 1`')
    env = {}
    for k in range(3):
        env[f'newposv[i, {k}]'] = f'q{k}'
        env[f'supermin[{k}]'] = f'lo{k}'
        env[f'supermax[{k}]'] = f'hi{k}'
    L += [f'/-- `if {_cmt(U(atom_body[1].test))}:` keep the image -/',
          f'def inSuperTest (q0 q1 q2 lo0 lo1 lo2 hi0 hi1 hi2 : Rat) : Bool := {_lx(atom_body[1].test, env, "rat")}', '']

    # --- the stencil of the sweep
    dc = _one([n for n in nodes if isinstance(n, ast.Assign) and U(n.targets[0]) == 'dc'], '`dc = …`')
    loops = _loops_around(dc, parent)
    if len(loops) != 4 or sorted(U(l.target) for l in loops[1:]) != ['dx', 'dy', 'dz'] or parent[dc] is not loops[3]:
        raise TranslationError('nlist.pyx: `dc = …` is not directly inside three offset loops inside the loop over the occupied bins')
    if U(dc.value) != 'xyzbins[x + dx, y + dy, z + dz, 0]':
        raise TranslationError(f'nlist.pyx: `dc = {U(dc.value)}`')
    rngs = [(U(l.target), _int_range(l.iter, 'stencil loops')) for l in loops[1:]]
    expr = ''
    for d, (v, (lo, hi)) in enumerate(rngs):
        expr += f'(rangeI ({lo}) ({hi})).{"map" if d == 2 else "flatMap"} fun ({v} : Int) => '
    sb = loops[3].body
    if not (len(sb) == 5 and sb[2] is dc and isinstance(sb[0], ast.If) and isinstance(sb[1], ast.If)
            and [U(s) for s in sb[0].body] == ['end = True', 'break'] and not sb[0].orelse
            and [U(s) for s in sb[1].body] == ['continue'] and not sb[1].orelse and U(sb[4]) == 'c += dc'):
        raise TranslationError('nlist.pyx: body of the innermost stencil loop is not `if <centre>: end = True; break / if <skip>: continue / dc = … / for j … / c += dc`')
    env = {'dx': 'dx', 'dy': 'dy', 'dz': 'dz'}
    L += ['/-! ### stencil of the sweep -/',
          '/-- all offsets `(dx, dy, dz)` in loop order: ' + ', '.join(f'`for {v} in range({lo}, {hi})`' for v, (lo, hi) in rngs) + ' -/',
          f'def stencilLoop : List (Int × Int × Int) := {expr}(dx, dy, dz)',
          f'/-- `if {_cmt(U(sb[0].test))}: end = True; break` -/',
          f'def centreTest (dx dy dz : Int) : Bool := {_lx(sb[0].test, env, "int")}']
    env.update({'x': 'x', 'y': 'y', 'z': 'z', 'numxbins': 'numxbins', 'numybins': 'numybins', 'numzbins': 'numzbins'})
    L += [f'/-- `if {_cmt(U(sb[1].test))}: continue` -/',
          f'def skipTest (x y z dx dy dz numxbins numybins numzbins : Int) : Bool := {_lx(sb[1].test, env, "int")}']
    # the pair loops
    ul = _one([n for n in nodes if isinstance(n, ast.For) and U(n.target) == 'u'], '`for u in …`')
    if U(ul.iter) != 'range(shortlist.shape[0])' or parent[ul] is not loops[0]:
        raise TranslationError(f'nlist.pyx: `for u in {U(ul.iter)}`')
    vls = [n for n in ul.body if isinstance(n, ast.For) and U(n.target) == '(w, v)']
    if len(vls) != 2 or U(vls[0].iter) != U(vls[1].iter):
        raise TranslationError('nlist.pyx: the two `for w, v in enumerate(range(…))` loops of the sweep differ / are missing')
    it = vls[0].iter
    if not (isinstance(it, ast.Call) and U(it.func) == 'enumerate' and len(it.args) == 1 and isinstance(it.args[0], ast.Call)
            and U(it.args[0].func) == 'range' and len(it.args[0].args) == 2 and U(it.args[0].args[1]) == 'longlist.shape[0]'):
        raise TranslationError(f'nlist.pyx: pair loop `for w, v in {U(it)}`')
    L += [f'/-- `for u in range(shortlist.shape[0]): for w, v in {_cmt(U(it))}`: first `v` -/',
          f'def vStart (u : Nat) : Nat := {_lx(it.args[0].args[0], {"u": "u"}, "nat")}', '']

    # --- sorted insertion: the two scans
    scans = [n for n in nodes if isinstance(n, ast.For) and U(n.target) == 'j' and isinstance(n.iter, ast.Call)
             and U(n.iter.func) == 'range' and len(n.iter.args) == 2 and U(n.iter.args[1]).startswith('neighbors[')]
    if len(scans) != 2:
        raise TranslationError(f'nlist.pyx: {len(scans)} scans `for j in range(a, neighbors[…, 0] + …)` (expected 2)')
    su, sv = scans
    out = []
    for s, who, other, pre in ((su, 'uindex', 'vindex', 'u'), (sv, 'vindex', 'uindex', 'v')):
        cnt = f'neighbors[{who}, 0]'
        out += [f'/-- `for j in {_cmt(U(s.iter))}` -/',
                f'def {pre}ScanStart : Nat := {_lx(s.iter.args[0], {}, "nat")}',
                f'def {pre}ScanStop (count : Nat) : Nat := {_lx(s.iter.args[1], {cnt: "count"}, "nat")}']
        env = {f'neighbors[{who}, j]': 'e', other: 'w'}
        if len(s.body) != 1 or not isinstance(s.body[0], ast.If):
            raise TranslationError(f'nlist.pyx: body of the scan of row {who}')
        i1 = s.body[0]
        if pre == 'u':
            if [U(t) for t in i1.body] != ['new = False', 'break'] or len(i1.orelse) != 1 or not isinstance(i1.orelse[0], ast.If) \
                    or [U(t) for t in i1.orelse[0].body] != ['uj = j', 'break'] or i1.orelse[0].orelse:
                raise TranslationError('nlist.pyx: scan of row uindex is not `if <found>: new = False; break  elif <past>: uj = j; break`')
            out += [f'/-- `if {_cmt(U(i1.test))}: new = False; break` (`e` = the entry, `w` = `vindex`) -/',
                    f'def uFound (e w : Nat) : Bool := {_lx(i1.test, env, "nat")}',
                    f'/-- `elif {_cmt(U(i1.orelse[0].test))}: uj = j; break` -/',
                    f'def uPast (e w : Nat) : Bool := {_lx(i1.orelse[0].test, env, "nat")}']
        else:
            if [U(t) for t in i1.body] != ['vj = j', 'break'] or i1.orelse:
                raise TranslationError('nlist.pyx: scan of row vindex is not `if <past>: vj = j; break`')
            out += [f'/-- `if {_cmt(U(i1.test))}: vj = j; break` (`e` = the entry, `w` = `uindex`) -/',
                    f'def vPast (e w : Nat) : Bool := {_lx(i1.test, env, "nat")}']
        dflt = _one([n for n in nodes if isinstance(n, ast.If) and U(n.test) == f'{pre}j == -1'], f'`if {pre}j == -1:`')
        if len(dflt.body) != 1 or dflt.orelse or not isinstance(dflt.body[0], ast.Assign) or U(dflt.body[0].targets[0]) != f'{pre}j':
            raise TranslationError(f'nlist.pyx: `if {pre}j == -1:` does not set {pre}j')
        out += [f'/-- `if {pre}j == -1: {_cmt(U(dflt.body[0]))}` -/',
                f'def {pre}jDefault (count : Nat) : Nat := {_lx(dflt.body[0].value, {cnt: "count"}, "nat")}']
    L += ['/-! ### sorted insertion: the scans of the two rows -/'] + out
    L += ['', 'end Atomman.C03.Src', '']
    return '\n'.join(L)


def translate():
    from ..translate import TranslationError
    lines = _code_lines(cm.source('atomman/core/nlist.pyx'))
    _pin_statements()
    g = {}
    g.update(_match_block(lines, _BIN_BLOCK, 'bin-table growth'))
    g.update(_match_block(lines, _NBR_BLOCK, 'neighbor-array growth'))
    import re
    for pat in _SINGLE:
        hits = [m for m in (re.fullmatch(pat, l) for l in lines) if m]
        if len(hits) != 1:
            raise TranslationError(f'nlist.pyx: statement /{pat}/ found {len(hits)} times')
        g.update(hits[0].groupdict())
    B = ['c', 'maxatomsperbin']
    N = ['cu', 'cv', 'maxneighbors', 'deltasize']
    out = [
        '/- GENERATED by harness/props/c03.py from atomman/core/nlist.pyx — do not edit.',
        '   The constants and tests of the two capacity-growth blocks of `nlist` (bin table `xyzbins`, per-atom',
        '   array `neighbors`), each as the expression that stands in the source. -/',
        'namespace Atomman.C03.Gen', '',
        f'/-- `cdef Py_ssize_t maxatomsperbin = {g["bin_init"]}` -/',
        f'def binInit : Nat := {g["bin_init"]}',
        f'/-- `xyzbins = np.zeros((numxbins, numybins, numzbins, {g["bin_init_width"]}), …)` -/',
        f'def binInitWidth (maxatomsperbin : Nat) : Nat := {_nat_expr(g["bin_init_width"], B[1:])}',
        f'/-- `if {g["bin_trigger"]}:` -/',
        f'def binTrigger (c maxatomsperbin : Nat) : Bool := {_nat_expr(g["bin_trigger"], B)}',
        f'/-- `newbins = np.zeros((numxbins, numybins, numzbins, {g["bin_width"]}), …)` -/',
        f'def binNewWidth (maxatomsperbin : Nat) : Nat := {_nat_expr(g["bin_width"], B[1:])}',
        f'/-- `for l in range({g["bin_copy"]}):` -/',
        f'def binCopyCols (maxatomsperbin : Nat) : Nat := {_nat_expr(g["bin_copy"], B[1:])}',
        f'/-- `maxatomsperbin += {g["bin_grow"]}` -/',
        f'def binGrow (maxatomsperbin : Nat) : Nat := maxatomsperbin + {_nat_expr(g["bin_grow"], B[1:])}',
        '',
        f'/-- `cdef Py_ssize_t maxneighbors = {g["nbr_init"]}` -/',
        f'def nbrInit (initialsize : Nat) : Nat := {_nat_expr(g["nbr_init"], ["initialsize"])}',
        f'/-- `neighbors = np.empty((natoms, {g["nbr_init_width"]}), …)` -/',
        f'def nbrInitWidth (maxneighbors : Nat) : Nat := {_nat_expr(g["nbr_init_width"], N[2:3])}',
        f'/-- `if {g["nbr_trigger"]}:` (`cu`, `cv`: the two coordination numbers after the increment) -/',
        f'def nbrTrigger (cu cv maxneighbors : Nat) : Bool := {_nat_expr(g["nbr_trigger"], N[:3])}',
        f'/-- `newneighbors = np.empty((natoms, {g["nbr_width"]}), …)` -/',
        f'def nbrNewWidth (maxneighbors deltasize : Nat) : Nat := {_nat_expr(g["nbr_width"], N[2:])}',
        f'/-- `for k in range({g["nbr_copy"]}):` -/',
        f'def nbrCopyCols (maxneighbors : Nat) : Nat := {_nat_expr(g["nbr_copy"], N[2:3])}',
        f'/-- `maxneighbors += {g["nbr_grow"]}` -/',
        f'def nbrGrow (maxneighbors deltasize : Nat) : Nat := maxneighbors + {_nat_expr(g["nbr_grow"], N[2:])}',
        '']
    nd, dd, sg = _translate_scalars()
    dump = _translate_dump()
    obj = _translate_object()
    out += [
        '/-! ### declared C types of the real-valued variables (the model is exact over `Rat`: it idealises `double`) -/',
        'inductive CReal where', '  | double | single | longdouble', '  deriving DecidableEq, Repr', '']
    for name in _NLIST_REALS:
        out.append(f'/-- nlist: `{name}` -/')
        out.append(f'def ty_nlist_{name} : CReal := .{nd[name]}')
    for name in _DMAG_REALS:
        out.append(f'/-- dmag2_c: `{name}` -/')
        out.append(f'def ty_dmag_{name} : CReal := .{dd[name]}')
    others = [(f'nlist.{k}', v) for k, v in sorted(nd.items()) if k not in _NLIST_REALS] \
        + [(f'dmag2_c.{k}', v) for k, v in sorted(dd.items()) if k not in _DMAG_REALS]
    out.append('/-- every other variable of the two functions declared with a real C type: '
               + ', '.join(k for k, _ in others) + ' -/')
    out.append('def otherReals : List CReal := [' + ', '.join('.' + v for _, v in others) + ']')
    out += [
        '', '/-! ### scalar expressions and tests of the distance comparison -/',
        f'/-- `cdef double cutoff2 = {sg["cutoff2"]}` -/',
        f'def cutoff2Of (cutoff : Rat) : Rat := {_rat_expr(sg["cutoff2"], ["cutoff"])}',
        f'/-- `binsize = {sg["binsize"]}` -/',
        f'def binsizeOf (cutoff : Rat) : Rat := {_rat_expr(sg["binsize"], ["cutoff"])}',
        f'/-- `if {sg["accept"]}:` (`d` = `dmag2[w]`, `c2` = `cutoff2`) -/',
        f'def acceptTest (d c2 : Rat) : Bool := {_cmp_expr(sg["accept"], {"dmag2[w]": "d", "cutoff2": "c2"})}',
        f'/-- `if {sg["self"]}:` -/',
        f'def distinctTest (uindex vindex : Nat) : Bool := {_cmp_expr(sg["self"], {"uindex": "uindex", "vindex": "vindex"})}',
        f'/-- dmag2_c: `if {sg["mintest"]}:` (`t` = `mag2_test`, `m` = `mag2_dv[i]`) -/',
        f'def minTest (t m : Rat) : Bool := {_cmp_expr(sg["mintest"], {"mag2_test": "t", "mag2_dv[i]": "m"})}',
        '', '/-! ### `NeighborList.dump` -/',
        '/-- right-alignment of `%<w>i` -/',
        "def padLeft (w : Nat) (l : List Char) : List Char := List.replicate (w - l.length) ' ' ++ l",
        f'/-- the text written before the first atom line: {_cmt(repr(dump["header"]))} -/',
        f'def dumpHeader : List Char := {_chars(dump["header"])}',
        f'/-- `fp.write({_cmt(repr(dump["idx"]))} % i)` -/',
        f'def dumpIdx (i : Nat) : List Char := {_fmt_lean(dump["idx"], "i")}',
        f'/-- `fp.write({_cmt(repr(dump["nbr"]))} % j)` -/',
        f'def dumpNbr (j : Nat) : List Char := {_fmt_lean(dump["nbr"], "j")}',
        f'/-- `fp.write({_cmt(repr(dump["eol"]))})` -/',
        f'def dumpEol : List Char := {_chars(dump["eol"])}',
        '', '/-! ### `NeighborList.build` / `[key]` -/',
        '/-- `self.__coord = self.__nlist[:, k]` -/',
        f'def coordCol : Nat := {obj["coord_col"]}',
        '/-- `self.__neighbors = self.__nlist[:, k:]`; `[key]` is `self.__neighbors[key, :self.coord[key]]` -/',
        f'def nbrFrom : Nat := {obj["nbr_from"]}',
        '', 'end Atomman.C03.Gen', '']
    return {'NlistStorage': '\n'.join(out), 'NlistSource': _translate_source()}


# ----------------------------------------------------------------------------------------
# canary: the compiled code runs with bounds checks off; a broken index computation can take the interpreter down.
# A sample of every generator is therefore run first in a forked child; if the child is killed, the case it died on is
# the failing input and nothing else of this run calls the implementation in-process.
# ----------------------------------------------------------------------------------------
def _forked(fn):
    """run `fn(report)` in a forked child; the child calls `report(obj)` (a JSON-serialisable object) before every
    step that calls the implementation.  Returns None when the child ran through, else (last reported object, signal
    or exit status) — the step the interpreter died on."""
    fd, path = tempfile.mkstemp(prefix='c03_trace_')
    os.close(fd)
    pid = os.fork()
    if pid == 0:
        code = 0
        try:
            with open(path, 'w') as f:
                def report(obj):
                    f.seek(0)
                    f.truncate()
                    f.write(json.dumps(obj))
                    f.flush()
                fn(report)
                report('done')
        except BaseException:  # noqa
            code = 3
        finally:
            os._exit(code)
    _, status = os.waitpid(pid, 0)
    try:
        with open(path) as f:
            txt = f.read()
        last = json.loads(txt) if txt else None
    except Exception:  # noqa
        last = None
    finally:
        os.unlink(path)
    if last == 'done' and os.WIFEXITED(status) and os.WEXITSTATUS(status) == 0:
        return None
    sig = os.WTERMSIG(status) if os.WIFSIGNALED(status) else f'exit {os.WEXITSTATUS(status)}'
    return last, sig


def _run_forked(cases):
    """None when the child ran all cases, else (index of the case it died on, signal or exit status)."""
    def body(report):
        for k, case in enumerate(cases):
            report(k)
            try:
                system = _system(dict(case))
                _rows(_build(case, system, case.get('init') or 20, case.get('delta') or 10, k % 2))
                if k % 4 == 0:
                    _rows(_build(case, system, 1, 1, 1 - k % 2))
                if case.get('call'):
                    ci, cd = case['call']
                    _rows(_build(case, system, None if ci in '-~' else int(ci), None if cd in '-~' else int(cd), k % 2,
                                 3 if '~' in (ci, cd) else 0))
            except Exception:  # noqa  (exceptions are handled by the in-process run)
                pass
    res = _forked(body)
    if res is None:
        return None
    return (res[0] if isinstance(res[0], int) else 0), res[1]


class _NullCtx:
    """stands in for the check context in a pre-flight child: nothing is recorded."""
    class _S:
        def case(self, *a, **k):
            pass

    def __init__(self):
        self.stats = self._S()
        self.notes, self.extra, self.violations, self.disagreements = [], {}, [], []
        self.driver = None

    def violate(self, *a, **k):
        pass

    def disagree(self, *a, **k):
        pass


_TRACE_FILE = None
_RESULT_FILE = None


def _trace(obj):
    """inside an isolated phase: note the step that is about to call the implementation (a replay payload)."""
    if _TRACE_FILE is not None:
        _TRACE_FILE.seek(0)
        _TRACE_FILE.truncate()
        _TRACE_FILE.write(json.dumps(obj))
        _TRACE_FILE.flush()


def _checkpoint(ctx, done=False, exc=None):
    """inside an isolated phase: hand what has been recorded so far to the parent process (atomic replace)."""
    if _RESULT_FILE is None:
        return
    import pickle
    data = {'stats': ctx.stats, 'disagreements': ctx.disagreements, 'violations': ctx.violations, 'notes': ctx.notes,
            'extra': ctx.extra, 'rng': ctx.rng.getstate(), 'driver_n': getattr(ctx.driver, 'n', 0), 'done': done,
            'exc': exc}
    with open(_RESULT_FILE + '.tmp', 'wb') as f:
        pickle.dump(data, f)
    os.replace(_RESULT_FILE + '.tmp', _RESULT_FILE)


def _isolated(ctx, fn, what):
    """Run `fn(ctx)` in a forked child and merge what it recorded into `ctx`: the compiled code under test runs with
    bounds checks off, an index slip can corrupt the heap and take the interpreter down at any later moment (even at
    exit), so the process that reports the verdict never executes it.  The child checkpoints its records after every
    phase and notes every step before it calls the implementation; when it dies, the records up to the last
    checkpoint are kept and the step it died in is reported as a `crash` violation with its replayable input.
    The Lean driver is shared through the inherited pipes (strict request/reply, so the parent finds it in sync after
    a normal return; after a death it is restarted)."""
    global _TRACE_FILE, _RESULT_FILE
    import pickle
    import sys
    import traceback
    d = tempfile.mkdtemp(prefix='c03_iso_')
    res, trc = os.path.join(d, 'result.pkl'), os.path.join(d, 'trace.json')
    sys.stdout.flush()
    sys.stderr.flush()
    pid = os.fork()
    if pid == 0:
        code = 0
        try:
            _RESULT_FILE = res
            _TRACE_FILE = open(trc, 'w')
            try:
                fn(ctx)
                _checkpoint(ctx, done=True)
            except BaseException as e:  # noqa  (handed to the parent, which re-raises it)
                _checkpoint(ctx, done=True, exc=(type(e).__name__, str(e), traceback.format_exc(),
                                                 isinstance(e, cm.InfraError)))
            sys.stdout.flush()
            sys.stderr.flush()
        except BaseException:  # noqa
            code = 3
        finally:
            os._exit(code)
    _, status = os.waitpid(pid, 0)
    data, last = None, None
    try:
        if os.path.exists(res):
            with open(res, 'rb') as f:
                data = pickle.load(f)
        if os.path.exists(trc):
            txt = open(trc).read()
            last = json.loads(txt) if txt else None
    except Exception:  # noqa
        pass
    finally:
        import shutil
        shutil.rmtree(d, ignore_errors=True)
    if data is not None:
        ctx.stats = data['stats']
        ctx.disagreements[:] = data['disagreements']
        ctx.violations[:] = data['violations']
        ctx.notes[:] = data['notes']
        ctx.extra.clear()
        ctx.extra.update(data['extra'])
        ctx.rng.setstate(data['rng'])
        if ctx.driver is not None:
            ctx.driver.n = data['driver_n']
    ok = data is not None and data['done'] and os.WIFEXITED(status) and os.WEXITSTATUS(status) == 0
    if ok:
        if data['exc'] is not None:
            name, msg, tb, infra = data['exc']
            print(tb, flush=True)
            if infra:
                raise cm.InfraError(msg)
            raise RuntimeError(f'{name}: {msg}')
        return
    sig = os.WTERMSIG(status) if os.WIFSIGNALED(status) else f'exit {os.WEXITSTATUS(status)}'
    # the phases that follow run in children of their own: they are not skipped (a death in the correspondence run on an
    # input outside the property's quantifier must not stand in for a failing input of the property)
    outside = isinstance(last, dict) and isinstance(last.get('case'), dict) and last['case'].get('regime') == 'outside'
    if outside:
        c = last['case']
        ctx.disagree('crash-outside', f'the interpreter is terminated (signal {sig}) while building the neighbor list of a '
                     f'system with atoms up to half a cutoff OUTSIDE the cell (not an input of the property; the model '
                     f'computes a list for it) [{what}]: natoms={len(c["pos"])}, pbc={c["pbc"]}, cutoff={c["cutoff"]!r}', last)
    elif not any(f.key == 'crash' for f in ctx.violations):
        if isinstance(last, dict) and last.get('op') == 'sequence':
            ctx.violate('crash', f'a neighbor-list call on one System object after operations '
                        f'{[x["op"] for x in last.get("steps", [])]} terminates the interpreter (signal {sig}) [{what}]', last)
        elif isinstance(last, dict) and 'case' in last:
            c = last['case']
            ctx.violate('crash', f'the interpreter is terminated (signal {sig}) while / after building the neighbor list '
                        f'[{what}]: natoms={len(c["pos"])}, pbc={c["pbc"]}, cutoff={c["cutoff"]!r}, initialsize='
                        f'{c.get("init")}, deltasize={c.get("delta")}'
                        + (f' [called with initialsize / deltasize = {c["call"][0]} / {c["call"][1]}: "-" = left out in '
                           f'NeighborList(system=, cutoff=) / System.neighborlist(cutoff=), "~" = left out in nlist(system, cutoff)]'
                           if c.get('call') else '') + f', vects={c["vects"]}', last)
        else:
            ctx.violate('crash', f'the interpreter is terminated (signal {sig}) during {what}', last or {'op': 'crash'})
    if ctx.driver is not None:
        try:
            ctx.driver.close()
        except Exception:  # noqa
            pass
        ctx.driver = cm.Driver('drv_c03')


def canary(ctx):
    """True when the implementation killed the child (violation recorded): do not call it in-process."""
    if '_canary' in ctx.extra:
        return ctx.extra['_canary']
    rng = random.Random(ctx.seed * 104729 + 11)
    cases = [c for _, c in load_corpus()]
    for gen in (gen_general, gen_grid, gen_edges, gen_hunt, gen_shear, gen_dense, gen_seq_start, gen_fine, gen_nearcut,
                gen_bigcut, gen_elongated, gen_signed):
        cases += [gen(rng, it) for it in range(12 if gen is gen_dense else 40)]
    cases += [_variant(c, rng)[0] for c in cases[len(cases) // 2::7]]
    cases += [gen_crystal(rng, it) for it in range(24)]
    res = _run_forked(cases)
    ctx.extra['_canary'] = res is not None
    ctx.extra['canary_cases'] = len(cases)
    if res is not None:
        k, sig = res
        case = cases[k]
        ctx.violate('crash', f'building the neighbor list terminates the interpreter (signal {sig}): natoms='
                    f'{len(case["pos"])}, pbc={case["pbc"]}, cutoff={case["cutoff"]!r}, vects={case["vects"]}',
                    _payload(case, stage='crash'))
    return ctx.extra['_canary']


# ----------------------------------------------------------------------------------------
# correspondence
# ----------------------------------------------------------------------------------------
def _roundtrip_real(ctx, case, nl, rows, tmpdir, tag, it=0):
    """the round-trip clause on the real code: dump -> load (from the path, or from the text / an open binary file)
    gives the same lists and coordination numbers. Returns the raw file content, or None after a violation."""
    import atomman as am
    path = os.path.join(tmpdir, 'nl.txt')
    how = ('path', 'content', 'file')[it % 3]
    try:
        if it % 2:
            # the target exists already and is LONGER than what will be written (left-overs would be read as atoms)
            with open(path, 'w') as f:
                f.write('# an older file\n' + ''.join(f'{k} 0 1 2 3 4 5 6 7 8 9 10 11 12\n' for k in range(len(rows) + 40)))
        elif os.path.exists(path):
            os.unlink(path)
        nl.dump(path)
        with open(path, 'rb') as f:
            raw = f.read()
        if how == 'path':
            back = am.NeighborList(model=path)
        elif how == 'content':
            back = am.NeighborList(model=raw.decode('utf-8'))
        else:
            with open(path, 'rb') as f:
                back = am.NeighborList(model=f)
        rows_back = _rows(back)
        coord_back = [int(c) for c in back.coord]
    except Exception as e:  # noqa
        ctx.violate('roundtrip-raises', f'NeighborList.dump / NeighborList(model=<{how}>) raised {type(e).__name__}: {e} '
                    f'for the lists {_short(rows, 12)} ({tag})', _payload(case, stage='roundtrip', how=how, it=it))
        return None
    if rows_back != rows or coord_back != [len(r) for r in rows]:
        ctx.violate('roundtrip', f'neighbor list read back from its own dump (model=<{how}>) differs ({tag}): wrote '
                    f'{_short(rows, 12)}, read {_short(rows_back, 12)} coord {_short(coord_back, 12)}',
                    _payload(case, stage='roundtrip', how=how, it=it))
        return None
    if len(rows) <= 200:
        bad = _object_clauses(back, rows, coord_back)
        if bad:
            ctx.violate('object', f'NeighborList read back from a dump (model=<{how}>): {bad} ({tag})',
                        _payload(case, stage='roundtrip', how=how, it=it))
            return None
    return raw


def _roundtrip(ctx, case, nl, rows, tmpdir, tag, it=0):
    """dump -> text compared with the model's render; load -> rows compared with the model's parse."""
    n = len(rows)
    raw = _roundtrip_real(ctx, case, nl, rows, tmpdir, tag, it)
    if raw is None:
        return
    text = raw.decode('utf-8')
    out = ctx.driver.ask(f'dump {n} ' + _flat_rows(rows))
    model_text = ''.join(chr(int(t)) for t in out.split()) if not out.startswith('err') else out
    if model_text != text:
        ctx.disagree('dump', f'dumped file differs from the model rendering: {text[:200]!r} vs {model_text[:200]!r}',
                     _payload(case, stage='dump'))
        return
    out = ctx.driver.ask('load ' + ' '.join(str(b) for b in raw))
    if out.startswith('err'):
        ctx.disagree('load', f'model refuses the dumped text: {out}', _payload(case, stage='load'))
        return
    nums = [int(t) for t in out.split()[1:]]
    if _parse_rows(nums[1:], nums[0]) != rows:
        ctx.disagree('load', f'model parse of the dumped text gives {nums}, implementation {rows}',
                     _payload(case, stage='load'))


def _correspond_case(ctx, case, name, tmpdir, roundtrip):
    n = len(case['pos'])
    init, delta = case['init'] or 20, case['delta'] or 10
    via = (n + init) % 2
    try:
        system = _system(case)
    except Exception as e:  # noqa
        ctx.violate('raises', f'System construction raised {type(e).__name__}: {e}', _payload(case))
        return
    # call forms (round 5): every 5th case leaves storage sizes out -- both through the object API (`-`: defaults of
    # NeighborList.build), both in a direct call of nlist (`~`: its own defaults), or only deltasize; the model takes the
    # defaults from the source of the run (Generated/NlistSource.lean) and the final storage width is compared
    k_form = (n + 3 * init + 7 * delta) % 15
    t_init, t_delta, a_init, a_delta, form = init, delta, init, delta, 0
    if k_form == 0:
        t_init, t_delta, a_init, a_delta = '-', '-', None, None
    elif k_form == 5:
        t_init, t_delta, a_init, a_delta, form = '~', '~', None, None, 3
    elif k_form == 10:
        t_delta, a_delta = '-', None
    if k_form in (0, 5, 10):
        ctx.extra['calls_with_sizes_left_out'] = ctx.extra.get('calls_with_sizes_left_out', 0) + 1
    out = ctx.driver.ask(_line(case, t_init, t_delta))
    if k_form in (0, 5, 10):
        _trace(_payload(dict(case, call=[str(t_init), str(t_delta)]), stage='crash'))
    try:
        nl = _build(case, system, a_init, a_delta, via, form)
        rows = _rows(nl)
        coord = [int(c) for c in nl.coord]
        cap = int(nl.nlist.shape[1]) - 1
    except Exception as e:  # noqa
        ctx.violate('raises', f'neighbor list construction raised {type(e).__name__}: {e}', _payload(case))
        return
    if out.startswith('err'):
        if case['regime'] == 'outside' and out == 'err:value':
            ctx.stats.case('corr:undefined-input', name, nontrivial=False)
            return
        ctx.disagree('driver', f'model refused the input: {out}', _payload(case))
        return
    t = out.split()
    mcap, near_cut, near_edge, ncands, nent = int(t[1]), t[2] == '1', t[3] == '1', int(t[4]), int(t[5])
    maxbin, maxapb = int(t[6]), int(t[7])
    mrows = _parse_rows([int(x) for x in t[8:]], n)
    ctx.extra['max_atoms_in_one_bin'] = max(ctx.extra.get('max_atoms_in_one_bin', 0), maxbin)
    if maxapb > 40:
        g = ctx.extra.setdefault('bin_table_growths', {})
        g[str((maxapb - 40) // 10)] = g.get(str((maxapb - 40) // 10), 0) + 1
    growths = max(0, -(-(max([len(r) for r in mrows] or [0]) - init) // delta))
    if growths >= 3:
        ctx.extra['cases_with_3plus_row_growths'] = ctx.extra.get('cases_with_3plus_row_growths', 0) + 1
    ctx.stats.case('corr:' + case['regime'], _line(case, init, delta), nontrivial=any(mrows),
                   sample={'natoms': n, 'pbc': case['pbc'], 'cutoff': case['cutoff'], 'initialsize': init,
                           'deltasize': delta, 'compared_pairs': ncands, 'atoms_and_ghosts': nent,
                           'max_coord': max([len(r) for r in mrows] or [0]), 'near_cutoff': near_cut,
                           'near_bin_edge': near_edge, 'max_atoms_in_one_bin': maxbin,
                           'final_maxatomsperbin': maxapb})
    ctx.extra['near_edge_cases'] = ctx.extra.get('near_edge_cases', 0) + int(near_edge)
    exempt = (near_cut and case['regime'] != 'grid') or (near_edge and case['regime'] == 'outside')
    if exempt:
        ctx.extra['exempt_cases'] = ctx.extra.get('exempt_cases', 0) + 1
        return
    if rows != mrows or coord != [len(r) for r in mrows]:
        diff = [i for i in range(n) if i >= len(rows) or rows[i] != mrows[i]][:3]
        ctx.disagree('rows', f'rows differ at atoms {diff}: implementation {[rows[i] for i in diff]} coord '
                     f'{[coord[i] for i in diff]}, model {[mrows[i] for i in diff]}', _payload(case))
        return
    if cap != mcap:
        ctx.disagree('capacity', f'final storage width {cap} != model {mcap} (initialsize {t_init}, deltasize {t_delta} '
                     f'[- / ~: left out in a call through NeighborList / of nlist], '
                     f'max coord {max(coord or [0])})', _payload(case))
    if roundtrip and form == 0:
        _roundtrip(ctx, case, nl, rows, tmpdir, name, n + init)


def correspond(ctx):
    _isolated(ctx, _correspond, 'the correspondence run')


def _correspond(ctx):
    rng = ctx.rng
    if canary(ctx):
        return
    with tempfile.TemporaryDirectory(prefix='c03_') as tmpdir:
        for name, case in load_corpus():
            _correspond_case(ctx, case, 'corpus:' + name, tmpdir, True)
        plan = [(gen_general, ctx.n(100, 2000)), (gen_grid, ctx.n(120, 2400)), (gen_edges, ctx.n(50, 800)),
                (gen_hunt, ctx.n(150, 3000)), (gen_outside, ctx.n(60, 1000)), (gen_shear, ctx.n(120, 1600)),
                (gen_dense, ctx.n(10, 140)), (gen_fine, ctx.n(120, 2400)), (gen_nearcut, ctx.n(100, 1600)),
                (_gen_crystal_small, ctx.n(12, 150)), (gen_narrowbin, ctx.n(40, 1000)),
                (gen_bigcut, ctx.n(100, 1500)), (gen_elongated, ctx.n(14, 150)), (gen_signed, ctx.n(120, 800))]
        import time
        ph = ctx.extra.setdefault('phase_seconds', {})
        vrng = random.Random(ctx.seed * 6007 + 5)
        for gen, count in plan:
            t0 = time.time()
            for it in range(count):
                case = gen(rng, it)
                if it % 4 == 3 and gen is not gen_signed:
                    # the same system in an equivalent description: mirrored / axes renamed / vectors reordered / other corner
                    case, how = _variant(case, vrng)
                    case['variant'] = how
                _trace(_payload(case, stage='crash'))
                _correspond_case(ctx, case, gen.__name__, tmpdir, it % 2 == 0)
            ph['corr:' + gen.__name__] = round(time.time() - t0, 1)
            _checkpoint(ctx)
        t0 = time.time()
        for it in range(ctx.n(40, 450)):
            run_sequence(ctx, rng, it, 'corr', tmpdir, trace=_trace)
        ph['corr:sequence'] = round(time.time() - t0, 1)
        t0 = time.time()
        for _ in range(ctx.n(2, 12)):
            _corr_long_rows(ctx, rng, tmpdir)
        ph['corr:longrows'] = round(time.time() - t0, 1)
    # text format: hand-made rows (long lists, empty lists, many digits) through dump/load of the model only
    _model_text_selfcheck(ctx, rng)


def _corr_long_rows(ctx, rng, tmpdir):
    """rows of about a thousand entries: the file the real `dump` writes against the model's `renderGen`, the model's
    `parse` of that file against the lists."""
    import atomman as am
    while True:
        n, rows = gen_hub_rows(rng)
        if n <= 1400:
            break
    full = [rows.get(i, []) for i in range(n)]
    payload = {'op': 'large', 'n': n, 'rows': {str(i): r for i, r in rows.items()}}
    text = ('# Neighbor list:\n# The first column gives an atom index.\n'
            '# The rest of the columns are the indexes of the identified neighbors.\n'
            + ''.join(' '.join(map(str, [i] + r)) + '\n' for i, r in enumerate(full)))
    path = os.path.join(tmpdir, 'longrows.txt')
    ctx.stats.case('corr:longrows', (n, json.dumps(payload['rows'], sort_keys=True)), nontrivial=True,
                   sample={'natoms': n, 'longest_row': max(len(r) for r in full)})
    try:
        nl = am.NeighborList(model=text)
        nl.dump(path)
        with open(path, 'rb') as f:
            raw = f.read()
    except Exception as e:  # noqa
        ctx.violate('roundtrip-raises', f'NeighborList(model=<text for {n} atoms, longest list {max(len(r) for r in full)} '
                    f'entries>).dump raised {type(e).__name__}: {str(e)[:200]}', payload)
        return
    out = ctx.driver.ask(f'dump {n} ' + _flat_rows(full))
    model_text = ''.join(chr(int(t)) for t in out.split()) if not out.startswith('err') else out
    if model_text != raw.decode('utf-8'):
        k = next((k for k, (a, b) in enumerate(zip(model_text, raw.decode('utf-8'))) if a != b), min(len(model_text), len(raw)))
        ctx.disagree('dump', f'dumped file ({n} atoms, rows up to {max(len(r) for r in full)} entries) differs from the model '
                     f'rendering at character {k}: {raw.decode("utf-8")[max(0, k - 30):k + 30]!r} vs '
                     f'{model_text[max(0, k - 30):k + 30]!r}', payload)
        return
    out = ctx.driver.ask('load ' + ' '.join(str(b) for b in raw))
    if out.startswith('err'):
        ctx.disagree('load', f'model refuses the dumped text: {out}', payload)
        return
    nums = [int(t) for t in out.split()[1:]]
    if _parse_rows(nums[1:], nums[0]) != full:
        ctx.disagree('load', f'model parse of the dumped text ({n} atoms) differs from the lists', payload)


def _model_text_selfcheck(ctx, rng):
    for it in range(ctx.n(20, 200)):
        n = rng.randint(1, 12)
        rows = [sorted(rng.sample(range(100000), rng.randint(0, 6))) for _ in range(n)]
        out = ctx.driver.ask(f'dump {n} ' + _flat_rows(rows))
        text = ''.join(chr(int(t)) for t in out.split())
        want = ('# Neighbor list:\n# The first column gives an atom index.\n'
                '# The rest of the columns are the indexes of the identified neighbors.\n'
                + ''.join(' '.join(map(str, [i] + r)) + '\n' for i, r in enumerate(rows)))
        back = ctx.driver.ask('load ' + ' '.join(str(b) for b in text.encode()))
        ctx.stats.case('corr:text', (n, tuple(map(tuple, rows))), nontrivial=True)
        if text != want or back != f'ok {n} ' + _flat_rows(rows):
            ctx.disagree('text', f'model render/parse mismatch on rows {rows}', {'op': 'text', 'rows': rows})


# ----------------------------------------------------------------------------------------
# operation sequences on ONE System object (and on copies / extensions / subsets derived from it)
# ----------------------------------------------------------------------------------------
SEQ_OPS = ['move_inplace', 'move_prop', 'move_scaled', 'set_all', 'set_all_scaled', 'view_all', 'swap', 'pbc',
           'pbc_inplace', 'box_scaled', 'box_grow', 'box_direct', 'translate', 'extend', 'subset', 'copy', 'wrap',
           'loadmodel', 'r0', 'cutoff', 'sizes', 'noop', 'box_flip', 'mirror']


def _state(system):
    """what the neighbor list may depend on, read back from the object."""
    np = _np()
    return {'vects': np.array(system.box.vects, dtype=float).tolist(),
            'origin': [float(x) for x in system.box.origin],
            'pos': np.array(system.atoms.pos, dtype=float).reshape(-1, 3).tolist(),
            'pbc': [bool(x) for x in system.pbc]}


def _state_case(system, q):
    st = _state(system)
    st.update({'cutoff': float(q['cutoff']), 'regime': 'float', 'init': q['init'], 'delta': q['delta']})
    return st


def _gen_op(rng, name, st, q):
    """explicit (replayable) description of one small change of the system / of the query."""
    np = _np()
    v = np.array(st['vects'])
    o = np.array(st['origin'])
    n = len(st['pos'])
    rel1 = lambda: [rng.choice([rng.random(), rng.random(), rng.random(), 0.0]) for _ in range(3)]  # noqa
    if name in ('move_inplace', 'move_prop'):
        i = rng.randrange(n)
        return {'op': name, 'i': i, 'p': (np.array(rel1()) @ v + o).tolist()}
    if name == 'move_scaled':
        return {'op': name, 'i': rng.randrange(n), 'rel': rel1()}
    if name in ('set_all', 'view_all'):
        if rng.random() < 0.5:      # small displacement of every atom, kept inside the cell
            inv = np.linalg.inv(v)
            rel = (np.array(st['pos']) - o) @ inv + np.array([[rng.uniform(-0.08, 0.08) for _ in range(3)]
                                                              for _ in range(n)])
            rel = np.clip(rel, 0.0, 1.0)
        else:
            rel = np.array([rel1() for _ in range(n)])
        return {'op': name, 'pos': (rel @ v + o).tolist()}
    if name == 'set_all_scaled':
        return {'op': name, 'rel': [rel1() for _ in range(n)]}
    if name == 'swap':
        if n < 2:
            return {'op': 'noop'}
        i, j = rng.sample(range(n), 2)
        return {'op': name, 'i': i, 'j': j}
    if name == 'pbc':
        new = list(st['pbc'])
        k = rng.randrange(3)
        new[k] = not new[k]
        return {'op': name, 'pbc': new}
    if name == 'pbc_inplace':
        return {'op': name, 'k': rng.randrange(3)}
    if name == 'box_scaled':
        nv = v.copy()
        k = rng.randrange(3)
        how = rng.randrange(3)
        if how == 0:
            nv[k] *= rng.choice([0.7, 0.85, 1.2, 1.5])
        elif how == 1:
            nv[k] += rng.uniform(-0.6, 0.6) * nv[(k + 1) % 3]                # shear
        else:
            nv *= rng.choice([0.8, 1.25])
        no = o + (np.array([rng.uniform(-1, 1) for _ in range(3)]) if rng.random() < 0.3 else 0.0)
        return {'op': name, 'vects': nv.tolist(), 'origin': no.tolist()}
    if name in ('box_grow', 'box_direct'):
        return {'op': name, 'vects': (v * rng.choice([1.0625, 1.25, 1.5, 2.0])).tolist(), 'origin': o.tolist()}
    if name == 'translate':
        return {'op': name, 'shift': [rng.uniform(-3, 3) for _ in range(3)]}
    if name == 'box_flip':
        # the same cell spanned from the far face of vector k: vector k negated, origin on that face, atoms untouched
        k = rng.randrange(3)
        nv = v.copy()
        nv[k] = -v[k]
        return {'op': name, 'vects': nv.tolist(), 'origin': (o + v[k]).tolist()}
    if name == 'mirror':
        # the whole system reflected through 1-3 coordinate planes (cell, origin, atoms): exact
        mask = rng.randint(1, 7)
        return {'op': name, 'signs': [-1.0 if mask >> j & 1 else 1.0 for j in range(3)]}
    if name == 'extend':
        return {'op': name, 'pos': (np.array([rel1() for _ in range(rng.randint(1, 3))]) @ v + o).tolist()}
    if name == 'subset':
        if n < 3:
            return {'op': 'noop'}
        keep = sorted(rng.sample(range(n), rng.randint(max(1, n - 3), n - 1)))
        return {'op': name, 'idx': keep}
    if name == 'wrap':
        i = rng.randrange(n)
        return {'op': name, 'i': i, 'shift': [rng.choice([-2, -1, 1, 2]) if st['pbc'][k] and rng.random() < 0.7 else 0
                                              for k in range(3)]}
    if name == 'cutoff':
        return {'op': name, 'cutoff': q['cutoff'] * rng.choice([0.6, 0.8, 0.9, 1.1, 1.3, 1.6])}
    if name == 'sizes':
        return {'op': name, 'init': rng.choice([None, 1, 2, 5, 25]), 'delta': rng.choice([None, 1, 3, 25])}
    return {'op': name}


def _apply_op(system, op, q, prev, tmpdir):
    """perform the change on the real object; returns (system to go on with, rows a loaded model must equal or None)."""
    np = _np()
    import atomman as am
    from copy import deepcopy
    name = op['op']
    if name == 'move_inplace':
        system.atoms.pos[op['i']] = np.array(op['p'])
    elif name == 'move_prop':
        system.atoms.prop(key='pos', index=op['i'], value=np.array(op['p']))
    elif name == 'move_scaled':
        system.atoms_prop(key='pos', index=op['i'], value=np.array(op['rel']), scale=True)
    elif name == 'set_all':
        system.atoms.pos = np.array(op['pos'])
    elif name == 'view_all':
        system.atoms.view['pos'][:] = np.array(op['pos'])
    elif name == 'set_all_scaled':
        system.atoms_prop(key='pos', value=np.array(op['rel']), scale=True)
    elif name == 'swap':
        pos = system.atoms.pos
        a, b = pos[op['i']].copy(), pos[op['j']].copy()
        pos[op['i']], pos[op['j']] = b, a
    elif name == 'pbc':
        system.pbc = op['pbc']
    elif name == 'pbc_inplace':
        system.pbc[op['k']] = not system.pbc[op['k']]
    elif name == 'box_scaled':
        system.box_set(vects=np.array(op['vects']), origin=np.array(op['origin']), scale=True)
    elif name == 'box_grow':
        system.box_set(vects=np.array(op['vects']), origin=np.array(op['origin']))
    elif name == 'box_direct':
        system.box.set(vects=np.array(op['vects']), origin=np.array(op['origin']))
    elif name == 'translate':
        sh = np.array(op['shift'])
        system.box_set(vects=system.box.vects, origin=system.box.origin + sh)
        system.atoms.pos += sh
    elif name == 'box_flip':
        system.box_set(vects=np.array(op['vects']), origin=np.array(op['origin']))
    elif name == 'mirror':
        sg = np.array(op['signs'])
        system.box_set(vects=system.box.vects * sg[None, :], origin=system.box.origin * sg)
        system.atoms.pos *= sg
    elif name == 'extend':
        system = system.atoms_extend(am.Atoms(pos=np.array(op['pos']).reshape(-1, 3)))
    elif name == 'subset':
        system = system.atoms_ix[op['idx']]
    elif name == 'copy':
        system = deepcopy(system)
    elif name == 'wrap':
        system.atoms.pos[op['i']] += np.array(op['shift'], dtype=float) @ system.box.vects
        system.wrap()
    elif name == 'loadmodel':
        if prev is not None:
            path = os.path.join(tmpdir, 'seq_nl.txt')
            prev[0].dump(path)
            back = system.neighborlist(model=path)
            return system, (_rows(back), [int(c) for c in back.coord])
    elif name == 'r0':
        try:
            system.r0()
        except Exception:       # noqa  (r0 is not part of this property; only its side effects matter here)
            pass
    elif name == 'cutoff':
        q['cutoff'] = op['cutoff']
    elif name == 'sizes':
        q['init'], q['delta'] = op['init'], op['delta']
    return system, None


def _query(system, q, via):
    import atomman as am
    kw = {}
    if q['init'] is not None:
        kw['initialsize'] = q['init']
    if q['delta'] is not None:
        kw['deltasize'] = q['delta']
    if via == 0:
        nl = am.NeighborList(system=system, cutoff=q['cutoff'], **kw)
    elif via == 1:
        nl = system.neighborlist(cutoff=q['cutoff'], **kw)
    else:
        arr = am.nlist(system, q['cutoff'], **kw)
        return None, [[int(j) for j in arr[i, 1:1 + int(arr[i, 0])]] for i in range(arr.shape[0])], \
            [int(c) for c in arr[:, 0]], int(arr.shape[1]) - 1
    return nl, _rows(nl), [int(c) for c in nl.coord], int(nl.nlist.shape[1]) - 1


VIA = {0: 'NeighborList(system=, cutoff=)', 1: 'System.neighborlist(cutoff=)', 2: 'nlist(system, cutoff)'}


def gen_seq_start(rng, it):
    """start system of a sequence: moderately sized so that every query is cheap for the exact model."""
    np = _np()
    kind = ('orth', 'tilt', 'gen')[it % 3]
    v = _rand_cell(rng, kind)
    origin = [rng.uniform(-5, 5) for _ in range(3)]
    pbc = ALL_PBC[(it // 3) % 8]
    w = min(_widths(v))
    cutoff = rng.uniform(0.25, 0.7) * w
    n = rng.randint(2, 24)
    rel = [[rng.random() for _ in range(3)] for _ in range(n)]
    pos = np.array(rel) @ v + np.array(origin)
    return _case(v, origin, pos, pbc, cutoff, 'float', rng.choice([None, 1, 3, 20]), rng.choice([None, 1, 2, 10]))


def _diff_ops(a, b):
    """the model operations (`P`/`A`/`B`/`C` of the `seq` request) that turn state `a` into state `b`."""
    np = _np()
    ops = []
    if a['vects'] != b['vects'] or a['origin'] != b['origin']:
        ops.append('B ' + cm.frs(np.array(b['vects'])) + ' ' + cm.frs(b['origin']))
    if a['pbc'] != b['pbc']:
        ops.append('C ' + ' '.join(str(int(x)) for x in b['pbc']))
    if len(a['pos']) == len(b['pos']):
        ch = [i for i in range(len(b['pos'])) if a['pos'][i] != b['pos'][i]]
        if len(ch) == 1:
            ops.append(f'P {ch[0]} ' + cm.frs(b['pos'][ch[0]]))
            return ops
        if not ch:
            return ops
    flat = [x for p in b['pos'] for x in p]
    ops.append(f'A {len(b["pos"])}' + ((' ' + cm.frs(flat)) if flat else ''))
    return ops


def _seq_compare(ctx, start, seq_ops, observed):
    """the whole history as ONE request to the model (`answers` of Atomman/C03.lean): every query answered from
    the state `applyOp` has produced at that point; compared with what the real object answered."""
    np = _np()
    n0 = len(start['pos'])
    flat = [x for p in start['pos'] for x in p]
    line = (f"seq {int(start['pbc'][0])} {int(start['pbc'][1])} {int(start['pbc'][2])} {TOL} "
            + cm.frs(np.array(start['vects'])) + ' ' + cm.frs(start['origin']) + f' {n0}'
            + ((' ' + cm.frs(flat)) if flat else '') + ' ' + ' '.join(seq_ops))
    out = ctx.driver.ask(line)
    if out.startswith('err'):
        ctx.disagree('driver', f'model refused the sequence: {out}', observed[-1][4])
        return
    parts = [p.split() for p in out[2:].split('|')[1:]]
    if len(parts) != len(observed):
        ctx.disagree('driver', f'{len(parts)} model answers for {len(observed)} queries', observed[-1][4])
        return
    for t, (rows, coord, cap, what_q, payload, via, hist) in zip(parts, observed):
        if t[0].startswith('err'):
            ctx.stats.case('corr:sequence-undefined', ' '.join(t), nontrivial=False)
            continue
        n = int(t[0])
        mcap, near_cut = int(t[1]), t[2] == '1'
        mrows = _parse_rows([int(x) for x in t[8:]], n)
        ctx.stats.case('corr:sequence', (line, what_q), nontrivial=any(mrows),
                       sample={'natoms': n, 'operations_before': hist, 'entry': VIA[via]})
        if near_cut:
            continue
        if rows != mrows or coord != [len(r) for r in mrows]:
            diff = [i for i in range(max(n, len(rows))) if i >= len(rows) or i >= n or rows[i] != mrows[i]][:3]
            ctx.disagree('sequence', f'{what_q}: rows differ from the model (answers of the operation sequence) at atoms '
                         f'{diff}: implementation {[rows[i] for i in diff if i < len(rows)]}, model '
                         f'{[mrows[i] for i in diff if i < n]}', payload)
            return
        if cap != mcap:
            ctx.disagree('capacity', f'{what_q}: final storage width {cap} != model {mcap}', payload)
            return


def run_sequence(ctx, rng, it, mode, tmpdir, script=None, trace=None):
    """query -> one small change -> query ... on one object. `mode`: 'corr' compares every answer with the Lean model
    evaluated on the state read back from the object at that moment, 'oracle' with the exact clauses.
    `script` (replay): {'start': case, 'steps': [{'op':..., 'via':...}, ...]}."""
    start = script['start'] if script else gen_seq_start(rng, it)
    steps = script['steps'] if script else None
    nsteps = len(steps) if script else rng.randint(3, 7)
    q = {'cutoff': start['cutoff'], 'init': start['init'], 'delta': start['delta']}
    system = _system(start)
    done = []
    answers = []          # (nl object, rows, coord) of every earlier query: must not change afterwards
    prev = None
    if script:
        vias = script['vias']
    else:
        favoured = rng.choice([0, 1, 1, 2])
        vias = [favoured if rng.random() < 0.7 else rng.randrange(3) for _ in range(nsteps + 1)]
    payload = {'op': 'sequence', 'start': start, 'steps': [], 'vias': vias}
    seq_ops, observed, last_state = [], [], dict(start)
    for k in range(nsteps + 1):
        via = vias[k]
        if k > 0:
            if script:
                op = steps[k - 1]
            else:
                op = _gen_op(rng, rng.choice(SEQ_OPS), _state(system), q)
            done.append(op)
            payload = {'op': 'sequence', 'start': start, 'steps': list(done), 'vias': vias}
            try:
                system, must = _apply_op(system, op, q, prev, tmpdir)
            except Exception as e:      # noqa
                if op['op'] == 'loadmodel':
                    ctx.violate('loadmodel-raises', f'System.neighborlist(model=<file written by NeighborList.dump>) '
                                f'raised {type(e).__name__}: {e}', payload)
                elif len(ctx.notes) < 5:
                    ctx.notes.append(f'sequence op {op["op"]} raised {type(e).__name__}: {str(e)[:80]}')
                if mode == 'corr' and observed:
                    _seq_compare(ctx, start, seq_ops, observed)
                return
            if must is not None and prev is not None and (must[0] != prev[1] or must[1] != prev[2]):
                ctx.violate('roundtrip', f'System.neighborlist(model=file) after NeighborList.dump(file) gives '
                            f'{must[0]} coord {must[1]}, dumped {prev[1]}', payload)
                return
        case = _state_case(system, q)
        n = len(case['pos'])
        if trace is not None:
            trace(payload)
        before = _snapshot(system)
        try:
            nl, rows, coord, cap = _query(system, q, via)
        except Exception as e:  # noqa
            ctx.violate('raises', f'{VIA[via]} raised {type(e).__name__}: {e} after operations '
                        f'{[d["op"] for d in done]}', payload)
            return
        if _snapshot(system) != before:
            ctx.violate('input-modified', f'{VIA[via]} changed the System it was called on (positions / box / pbc no longer '
                        f'bitwise what they were) after operations {[d["op"] for d in done]}', payload)
            return
        hist = [d['op'] for d in done]
        what_q = f'{VIA[via]} (cutoff={q["cutoff"]!r}, initialsize={q["init"]}, deltasize={q["delta"]}) as query ' \
                 f'{k + 1} on one object after operations {hist}'
        if mode == 'oracle':
            cls = exact_classes(case)
            nin = sum(1 for c in cls.values() if c == 'in')
            ctx.stats.case('oracle:sequence', (json.dumps(case, sort_keys=True), via), nontrivial=nin > 0,
                           sample={'natoms': n, 'operations_before': hist, 'entry': VIA[via],
                                   'pairs_below_cutoff': nin})
            bad = clauses(case, rows, coord, cls)
            if bad:
                key, what = bad[0]
                ctx.violate('seq-' + key, f'{what_q}: {what} [state of the object at the time of the call is in the replay]',
                            payload)
                return
        elif mode == 'corr':
            # a size the call leaves out is left out for the model too: `-` through NeighborList / System.neighborlist
            # (default of build), `~` in a direct call of nlist (its own default) -- both read from the source of the run
            left = '~' if via == 2 else '-'
            init, delta = (left if q['init'] is None else q['init']), (left if q['delta'] is None else q['delta'])
            seq_ops.extend(_diff_ops(last_state, case))
            seq_ops.append(f'Q {cm.fr(case["cutoff"])} {init} {delta}')
            last_state = case
            observed.append((rows, coord, cap, what_q, payload, via, hist))
        if nl is not None:
            prev = (nl, rows, coord)
            answers.append(prev)
    if mode == 'corr' and observed:
        _seq_compare(ctx, start, seq_ops, observed)
    for nl, rows, coord in answers:
        try:
            now = (_rows(nl), [int(c) for c in nl.coord])
        except Exception as e:  # noqa
            now = ('raised', type(e).__name__)
        if now != (rows, coord):
            ctx.violate('aliased', f'a NeighborList returned earlier changed after later operations / queries on the '
                        f'system: was {rows}, now {now[0]}', payload)
            return


# ----------------------------------------------------------------------------------------
# scale: more than 100 000 atoms (six-digit indices in the file; a whole lattice through nlist)
# ----------------------------------------------------------------------------------------
def gen_large_rows(rng, digits=6):
    """sparse neighbor lists for n > 100 000 atoms (`digits` = 7: n > 1 000 000): {atom: ascending neighbors}, symmetric,
    most atoms isolated; indices of 1 to `digits` digits, several of them with the full number of digits and adjacent in
    one list."""
    top = 10 ** (digits - 1)
    n = top + 1 + rng.randint(0, 3000)
    pool = sorted(set([0, 9, 10, 99, 100, 999, 1000, 9999, 10000, 99998, 99999, 100000, top - 2, top - 1, top, n - 1, n - 2]
                      + [rng.randrange(n) for _ in range(12)] + [rng.randrange(top, n) for _ in range(6)]))
    rows = {}
    for _ in range(rng.randint(8, 30)):
        i, j = rng.sample(pool, 2)
        rows.setdefault(i, set()).add(j)
        rows.setdefault(j, set()).add(i)
    hub = n - 1 - rng.randint(0, 1)
    for j in rng.sample(pool, 6) + [top, top - 1]:
        if j != hub:
            rows.setdefault(hub, set()).add(j)
            rows.setdefault(j, set()).add(hub)
    return n, {i: sorted(r) for i, r in rows.items()}


def gen_hub_rows(rng):
    """neighbor lists with very LONG rows (999 .. n-1 entries: around and beyond 1000, where array printing starts to
    summarise) for 1003-2600 atoms: one to three hub atoms listing most other atoms, every listed atom listing the hub."""
    n = rng.randint(1003, 2600)
    rows = {}
    hubs = rng.sample(range(n), rng.randint(1, 3))
    for h in hubs:
        k = rng.choice([999, 1000, 1001, 1002, 1003, min(n - 1, 1500), n - 1])
        for j in rng.sample([x for x in range(n) if x != h], k):
            rows.setdefault(h, set()).add(j)
            rows.setdefault(j, set()).add(h)
    return n, {i: sorted(r) for i, r in rows.items()}


def ball_system(seed, nball, pbc):
    """`nball` atoms inside a cube of edge 0.5 cutoff (every pair closer than 0.87 cutoff: all mutual neighbors, rows
    of nball - 1 > 1000 entries) plus four isolated atoms 2.4 cutoffs or more from everything, shuffled; mildly tilted
    cell of 12 cutoffs, the cube wherever it falls with respect to the bin edges.  Returns (case, ball indices)."""
    np = _np()
    rng = random.Random(seed)
    c = rng.uniform(0.6, 1.6)
    v = np.diag([12.0 * c] * 3)
    v[1, 0] = rng.uniform(-0.05, 0.05) * c
    v[2, 1] = rng.uniform(-0.05, 0.05) * c
    origin = np.array([rng.uniform(-3, 3) for _ in range(3)])
    cen = np.array([rng.uniform(0.4, 0.6) for _ in range(3)]) @ v
    pts = [(cen + np.array([rng.uniform(-0.25, 0.25) * c for _ in range(3)])).tolist() for _ in range(nball)]
    far = [(np.array(r) @ v).tolist() for r in ([0.1, 0.1, 0.1], [0.9, 0.1, 0.1], [0.1, 0.9, 0.1], [0.1, 0.1, 0.9])]
    allp = [(p, True) for p in pts] + [(p, False) for p in far]
    rng.shuffle(allp)
    pos = np.array([p for p, _ in allp]) + origin
    ball = [k for k, (_, b) in enumerate(allp) if b]
    return _case(v, origin.tolist(), pos, pbc, c, 'float'), ball


def check_ball(ctx, seed, nball, pbc, init, delta, tmpdir):
    """rows with more than 1000 entries through nlist itself (about 0.6 M pairs, every row grows ~ 1000 / deltasize
    times, one bin neighbourhood holds > 1000 atoms: the bin table grows ~ 100 times), closed-form oracle, then the
    file round trip of those rows."""
    np = _np()
    import atomman as am
    payload = {'op': 'ball', 'seed': seed, 'nball': nball, 'pbc': list(pbc), 'init': init, 'delta': delta}
    case, ball = ball_system(seed, nball, pbc)
    n = len(case['pos'])
    P = np.array(case['pos'])
    B = P[ball]
    d2 = ((B[:, None, :] - B[None, :, :]) ** 2).sum(axis=-1)
    assert float(d2.max()) < (0.9 * case['cutoff']) ** 2, 'harness: ball wider than designed'
    ctx.stats.case('oracle:ball', json.dumps(payload, sort_keys=True), nontrivial=True,
                   sample={'natoms': n, 'pbc': list(pbc), 'cutoff': case['cutoff'], 'initialsize': init,
                           'deltasize': delta, 'longest_row': nball - 1})
    desc = (f'{nball} atoms within 0.87 cutoffs of each other + 4 isolated atoms (cutoff {case["cutoff"]!r}, pbc '
            f'{list(pbc)}, initialsize {init}, deltasize {delta}, replay seed {seed})')
    try:
        system = _system(case)
        nl = am.NeighborList(system=system, cutoff=case['cutoff'], initialsize=init, deltasize=delta)
        coord = np.asarray(nl.coord)
        nbr = np.asarray(nl.nlist)[:, 1:]
    except Exception as e:  # noqa
        ctx.violate('raises', f'neighbor list of {desc} raised {type(e).__name__}: {e}', payload)
        return
    ballset = np.zeros(n, dtype=bool)
    ballset[ball] = True
    ecoord = np.where(ballset, nball - 1, 0)
    if coord.shape != (n,) or (coord != ecoord).any():
        i = int(np.nonzero(coord != ecoord)[0][0]) if coord.shape == (n,) else 0
        ctx.violate('missing' if coord.shape == (n,) and coord[i] < ecoord[i] else 'spurious',
                    f'{desc}: atom {i} ({"in the ball" if ballset[i] else "isolated"}) has coordination '
                    f'{int(coord[i]) if coord.shape == (n,) else None}, expected {int(ecoord[i])}', payload)
        return
    ballarr = np.array(sorted(ball))
    for i in ball:
        exp = ballarr[ballarr != i]
        if nbr.shape[1] < nball - 1 or not np.array_equal(nbr[i, :nball - 1], exp):
            got = nbr[i, :nball - 1]
            k = int(np.nonzero(got != exp)[0][0]) if got.shape == exp.shape else 0
            ctx.violate('sorted', f'{desc}: the list of atom {i} differs from the ascending list of the other ball atoms '
                        f'at entry {k}: {got[max(0, k - 2):k + 3].tolist()} vs {exp[max(0, k - 2):k + 3].tolist()}', payload)
            return
    path = os.path.join(tmpdir, 'ball.txt')
    try:
        with open(path, 'w') as f:          # the file exists already (non-empty)
            f.write('0 1\n1 0\n' * 20)
        nl.dump(path)
        back = am.NeighborList(model=path)
        same, where = _nl_equal(nl, back) if len(back) == n else (False, -1)
    except Exception as e:  # noqa
        ctx.violate('roundtrip-raises', f'the neighbor list of {desc} (rows of {nball - 1} entries) cannot be read back '
                    f'from its own dump: {type(e).__name__}: {str(e)[:200]}', payload)
        return
    if not same:
        i = where if where is not None and where >= 0 else ball[0]
        ctx.violate('roundtrip', f'the neighbor list of {desc} read back from its own dump differs: {len(back)} atoms; '
                    f'atom {i}: wrote {int(coord[i])} entries, read '
                    f'{int(back.coord[i]) if i < len(back) else None}', payload)


def _nl_equal(a, b):
    """two NeighborList objects hold the same coordination numbers and lists (vectorised)."""
    np = _np()
    ca, cb = np.asarray(a.coord), np.asarray(b.coord)
    if ca.shape != cb.shape or (ca != cb).any():
        bad = int(np.nonzero(ca != cb)[0][0]) if ca.shape == cb.shape else -1
        return False, bad
    A, B = np.asarray(a.nlist)[:, 1:], np.asarray(b.nlist)[:, 1:]
    w = int(ca.max()) if len(ca) else 0
    if A.shape[1] < w or B.shape[1] < w:
        return False, -1
    mask = np.arange(w)[None, :] < ca[:, None]
    diff = (np.where(mask, A[:, :w], 0) != np.where(mask, B[:, :w], 0)).any(axis=1)
    if diff.any():
        return False, int(np.nonzero(diff)[0][0])
    return True, None


def _short(obj, k=8):
    """lists / dicts of lists for a message: long lists cut to their first and last entries."""
    if isinstance(obj, dict):
        return '{' + ', '.join(f'{a}: {_short(b, k)}' for a, b in obj.items()) + '}'
    obj = list(obj)
    if len(obj) <= 2 * k:
        return str(obj)
    return f'[{", ".join(map(str, obj[:k]))}, ... ({len(obj)} entries) ..., {", ".join(map(str, obj[-k:]))}]'


def check_large_rows(ctx, n, rows, tmpdir):
    """file clause at scale without a large system: the lists are loaded from a text in the documented format (atom
    index, then its neighbors, separated by one blank), dumped, and read back."""
    import atomman as am
    rows = {int(i): [int(j) for j in r] for i, r in rows.items()}
    payload = {'op': 'large', 'n': n, 'rows': {str(i): r for i, r in rows.items()}}
    text = ('# Neighbor list:\n# The first column gives an atom index.\n'
            '# The rest of the columns are the indexes of the identified neighbors.\n'
            + ''.join(' '.join(map(str, [i] + rows.get(i, []))) + '\n' for i in range(n)))
    ctx.stats.case('oracle:large-file', (n, json.dumps(payload['rows'], sort_keys=True)), nontrivial=True,
                   sample={'natoms': n, 'atoms_with_neighbors': len(rows), 'largest_index': max([max(r) for r in rows.values()] or [0])})
    show = {i: rows[i] for i in sorted(rows)[-3:]}
    try:
        nl0 = am.NeighborList(model=text)
        got0 = {i: [int(j) for j in nl0[i]] for i in rows}
        ok0 = len(nl0) == n and got0 == rows and int(nl0.coord.sum()) == sum(len(r) for r in rows.values())
    except Exception as e:  # noqa
        ctx.violate('load-large', f'NeighborList(model=<text for {n} atoms>) raised {type(e).__name__}: {e}', payload)
        return
    if not ok0:
        wrong = [i for i in rows if got0.get(i) != rows[i]][:2]
        ctx.violate('load-large', f'NeighborList(model=<text for {n} atoms>) holds other lists than the text '
                    f'({len(nl0)} atoms): e.g. {_short({i: got0.get(i) for i in wrong})} for {_short({i: rows[i] for i in wrong})}',
                    payload)
        return
    path = os.path.join(tmpdir, 'large.txt')
    try:
        if n % 2:
            with open(path, 'w') as f:      # the file exists already (non-empty)
                f.write('# left over\n0 1\n1 0\n')
        nl0.dump(path)
        nl1 = am.NeighborList(model=path)
        same, where = _nl_equal(nl0, nl1) if len(nl1) == n else (False, -1)
        got1 = {i: [int(j) for j in nl1[i]] for i in show} if len(nl1) == n else {}
    except Exception as e:  # noqa
        ctx.violate('roundtrip-raises', f'a neighbor list for {n} atoms (longest list: {max([len(r) for r in rows.values()] or [0])} '
                    f'entries; lists of the last atoms with neighbors: {_short(show)}) '
                    f'cannot be read back from its own dump: {type(e).__name__}: {str(e)[:200]}', payload)
        return
    if not same:
        w = where if where is not None and where >= 0 else max(list(rows) or [0])
        ctx.violate('roundtrip', f'a neighbor list for {n} atoms read back from its own dump differs: atom {w} had '
                    f'{_short([int(j) for j in nl0[w]])}, read back {len(nl1)} atoms, atom {w}: '
                    f'{_short([int(j) for j in nl1[w]]) if w < len(nl1) else None}; {_short(got1)} for {_short(show)}',
                    payload)


def check_lattice(ctx, m, pbc, init, delta, tmpdir):
    """a whole simple-cubic lattice (spacing 1, cutoff 1.25: the 6 nearest neighbors, decided exactly) through nlist;
    `m`: an integer (m^3 > 100 000 atoms) or a shape [m0, m1, m2] (atom counts of exactly 2^13, 2^14, 2^15, 2^16, just
    above 2^15 / 2^16: indices on both sides of every narrow integer type, whole numbers of 8192-row blocks);
    independent closed-form oracle (index arithmetic); then dump -> load."""
    np = _np()
    import atomman as am
    payload = {'op': 'lattice', 'm': m, 'pbc': list(pbc), 'init': init, 'delta': delta}
    shape = [int(m)] * 3 if isinstance(m, int) else [int(x) for x in m]
    assert min(shape) >= 3, 'harness: lattice oracle needs three or more planes along every axis'
    g = [np.arange(k) for k in shape]
    abc = np.array(np.meshgrid(g[0], g[1], g[2], indexing='ij')).reshape(3, -1).T
    origin = np.array([-3.0, 0.5, 2.0])
    n = shape[0] * shape[1] * shape[2]
    ctx.stats.case('oracle:lattice', json.dumps(payload, sort_keys=True), nontrivial=True,
                   sample={'natoms': n, 'pbc': list(pbc), 'cutoff': 1.25, 'initialsize': init, 'deltasize': delta})
    try:
        system = am.System(atoms=am.Atoms(pos=abc.astype(float) + origin),
                           box=am.Box(vects=np.diag([float(k) for k in shape]), origin=origin), pbc=tuple(pbc))
        nl = am.NeighborList(system=system, cutoff=1.25, initialsize=init, deltasize=delta)
        coord = np.asarray(nl.coord)
        nbr = np.asarray(nl.nlist)[:, 1:]
    except Exception as e:  # noqa
        ctx.violate('raises', f'neighbor list of a {shape} simple-cubic lattice raised {type(e).__name__}: {e}', payload)
        return
    # expected: +-1 along each axis, through the face when that axis is periodic
    big = np.iinfo(np.int64).max
    exp = []
    for ax in range(3):
        for sgn in (1, -1):
            t = abc.copy()
            t[:, ax] += sgn
            ok = ((t[:, ax] >= 0) & (t[:, ax] < shape[ax])) | bool(pbc[ax])
            t[:, ax] %= shape[ax]
            exp.append(np.where(ok, (t[:, 0] * shape[1] + t[:, 1]) * shape[2] + t[:, 2], big))
    exp = np.sort(np.array(exp).T, axis=1)                       # ascending, padding last
    ecoord = (exp != big).sum(axis=1)
    exp = np.where(exp == big, -1, exp)
    desc = (f'{shape[0]} x {shape[1]} x {shape[2]} = {n} atom simple-cubic lattice (spacing 1, cutoff 1.25, pbc {list(pbc)}, '
            f'initialsize {init}, deltasize {delta})')
    if coord.shape != (n,) or (coord != ecoord).any():
        i = int(np.nonzero(coord != ecoord)[0][0]) if coord.shape == (n,) else 0
        ctx.violate('missing' if coord.shape == (n,) and coord[i] < ecoord[i] else 'spurious',
                    f'{desc}: atom {i} at {abc[i].tolist()} has coordination '
                    f'{int(coord[i]) if coord.shape == (n,) else None}, expected {int(ecoord[i])}', payload)
        return
    if nbr.shape[1] < 6:
        nbr = np.hstack([nbr, np.full((n, 6 - nbr.shape[1]), -1, dtype=nbr.dtype)])
    got = np.where(np.arange(6)[None, :] < coord[:, None], nbr[:, :6], -1)
    bad = (got != exp).any(axis=1)
    if bad.any():
        i = int(np.nonzero(bad)[0][0])
        ctx.violate('missing', f'{desc}: list of atom {i} is {[int(j) for j in nl[i]]}, expected '
                    f'{[int(j) for j in exp[i] if j >= 0]}', payload)
        return
    path = os.path.join(tmpdir, 'lattice.txt')
    try:
        nl.dump(path)
        back = am.NeighborList(model=path)
        same, where = _nl_equal(nl, back) if len(back) == n else (False, -1)
    except Exception as e:  # noqa
        ctx.violate('roundtrip-raises', f'the neighbor list of the {n} atoms of a {desc} cannot be read back from its '
                    f'own dump: {type(e).__name__}: {e}', payload)
        return
    if not same:
        i = where if where is not None and where >= 0 else n - 1
        ctx.violate('roundtrip', f'the neighbor list of a {desc} read back from its own dump differs: '
                    f'{len(back)} atoms; atom {i}: wrote {[int(j) for j in nl[i]]}, read '
                    f'{[int(j) for j in back[i]] if i < len(back) else None}', payload)


# atom counts at which a size-dependent path would switch: smallest lists, powers of two (narrow integer types, blocks
# of 2^k rows) and round decimal numbers (blocks of 1000 / 10000 rows), each with the count just below / above
THRESHOLD_SMALL = ([1, 2, 3] + [2 ** k + d for k in range(7, 15) for d in (-1, 0, 1, 2)]
                   + [1000, 1001, 2000, 2001, 4999, 5000, 5001, 10000, 10001, 3 * 4096, 3 * 4096 + 1])
THRESHOLD_EVERY_RUN = [2 ** 15 - 1, 2 ** 15, 2 ** 15 + 1, 2 ** 15 + 2, 2 ** 16 - 1, 2 ** 16, 2 ** 16 + 1, 2 ** 16 + 2]
THRESHOLD_ROTATING = [3 * 8192, 3 * 8192 + 1, 5 * 8192, 5 * 8192 + 1, 6 * 8192, 7 * 8192, 20000, 20001, 30000, 50000, 50001,
                      60000, 2 ** 17 - 1, 2 ** 17, 2 ** 17 + 1, 100000]
LATTICE_EVERY_RUN = [[16, 16, 32], [16, 32, 32], [32, 32, 33]]            # 2^13, 2^14, 2^15 + 1024 atoms
LATTICE_ROTATING = [47, [32, 32, 64], [40, 41, 40], [32, 32, 32], 47, [33, 40, 50], [32, 64, 33]]


def gen_threshold_rows(rng, n):
    """lists for exactly `n` atoms through the load path: {atom: ascending neighbors}, symmetric, most atoms isolated;
    the listed indices sit on both sides of every power of two below n (2^k - 1, 2^k, 2^k + 1: where an 8-, 16-bit,
    signed or unsigned index type ends), on both sides of every multiple of 8192 and of 1000 that is near the top, and
    at the very end (n - 1, n - 2); the last atom has neighbors in half of the cases and is isolated in the others (an
    isolated last line is what a dropped or an extra line at the end of the file changes)."""
    if n == 1:
        return 1, {}
    pool = {0, 1, n - 1, n - 2, n // 2}
    k = 7
    while 2 ** k - 1 < n:
        pool.update(x for x in (2 ** k - 1, 2 ** k, 2 ** k + 1) if x < n)
        k += 1
    for block in (8192, 1000):
        top = (n - 1) // block * block
        pool.update(x for x in (top - 1, top, top + 1) if 0 <= x < n)
    pool.update(rng.randrange(n) for _ in range(8))
    pool = sorted(x for x in pool if x >= 0)
    last_isolated = rng.random() < 0.5 and n > 3
    if last_isolated:
        pool = [x for x in pool if x != n - 1] or [0]
    rows = {}
    if len(pool) >= 2:
        for _ in range(rng.randint(len(pool), 3 * len(pool))):
            i, j = rng.sample(pool, 2)
            rows.setdefault(i, set()).add(j)
            rows.setdefault(j, set()).add(i)
        hub = pool[-1]
        for j in pool:
            if j != hub:
                rows.setdefault(hub, set()).add(j)
                rows.setdefault(j, set()).add(hub)
    return n, {i: sorted(r) for i, r in rows.items()}


def cloud_system(seed, per_bin, pbc):
    """`27 per_bin` atoms uniformly in a block of 3 x 3 x 3 cutoff-sized bins: an atom of the middle bin is compared with
    the ~ 14 per_bin atoms of its own bin and of the 13 stencil bins in ONE call of the distance routine - more than 2048
    (per_bin = 152) or 4096 (per_bin = 304) candidates at once - while only ~ 4.2 per_bin of them are neighbors.  As the
    sweep walks through the atoms u of a bin the candidate count falls from c - 1 to c - (atoms in the bin); with c
    about 14 per_bin in the middle bins that window (13 .. 14 per_bin) contains 2049 resp. 4097 (block size + 1), and
    the outer bins of the block (fewer filled stencil bins) give windows further down.  Along a
    non-periodic direction the cell is 7 cutoffs wide and the block starts on the third bin edge of the superbox as the
    source computes it (lowest corner - 1.01 cutoff + 3 cutoffs); along a periodic direction the cell is exactly 3
    cutoffs wide and filled completely (the images fill the outer bins).  The third cell vector points down its axis
    in half of the cases."""
    np = _np()
    rng = random.Random(seed)
    c = rng.uniform(0.7, 1.9)
    L = [(3.0 if pbc[j] else 7.0) * c for j in range(3)]
    v = np.diag(L)
    if not any(pbc):
        v[1, 0] = rng.uniform(-0.1, 0.1) * c
    if rng.random() < 0.5:
        v[2] = -v[2]                                  # third vector pointing down its axis
    origin = np.array([rng.uniform(-3, 3) for _ in range(3)])
    n = 27 * per_bin
    gen = np.random.default_rng(seed)
    U = gen.random((n, 3))
    corners = np.array([[x, y, z] for x in (0, 1) for y in (0, 1) for z in (0, 1)], dtype=float) @ v + origin
    pos = np.empty((n, 3))
    for j in range(3):
        if pbc[j]:
            pos[:, j] = origin[j] + U[:, j] * v[j, j]
        else:
            lo = float(corners[:, j].min()) - 1.01 * c + 3.0 * c
            pos[:, j] = lo + (1e-9 + U[:, j] * (1.0 - 2e-9)) * 3.0 * c
    return _case(v, origin.tolist(), pos, pbc, c, 'float', 20, 10)


def check_cloud(ctx, seed, per_bin, pbc, init, delta):
    """candidate lists of more than 2048 / 4096 atoms for one distance call (see `cloud_system`); oracle: numpy float
    distances over the 27 images for the clear pairs, exact integers for every pair within 1e-9 of the cutoff."""
    np = _np()
    import atomman as am
    payload = {'op': 'cloud', 'seed': seed, 'per_bin': per_bin, 'pbc': list(pbc), 'init': init, 'delta': delta}
    case = cloud_system(seed, per_bin, pbc)
    n = len(case['pos'])
    desc = (f'{n} atoms uniformly in a block of 3 x 3 x 3 cutoff-sized bins (about {14 * per_bin} candidates per distance call; cutoff '
            f'{case["cutoff"]!r}, pbc {list(pbc)}, initialsize {init}, deltasize {delta}, replay seed {seed})')
    try:
        system = _system(case)
        nl = am.NeighborList(system=system, cutoff=case['cutoff'], initialsize=init, deltasize=delta)
        coord = np.asarray(nl.coord).copy()
        arr = np.asarray(nl.nlist)[:, 1:]
    except Exception as e:  # noqa
        ctx.violate('raises', f'neighbor list of {desc} raised {type(e).__name__}: {e}', payload)
        return
    P = np.array(case['pos'])
    V = np.array(case['vects'])
    c2 = case['cutoff'] ** 2
    ctx.stats.case('oracle:cloud', json.dumps(payload, sort_keys=True), nontrivial=True,
                   sample={'natoms': n, 'pbc': list(pbc), 'cutoff': case['cutoff'], 'candidates_per_call': 14 * per_bin,
                           'max_coord': int(coord.max()) if n else 0})
    if coord.shape != (n,) or arr.shape[0] != n or int(coord.max()) > arr.shape[1]:
        ctx.violate('shape', f'{desc}: coord has shape {coord.shape}, the lists {arr.shape}', payload)
        return
    shifts = [x * V[0] + y * V[1] + z * V[2] for x in ((-1, 0, 1) if pbc[0] else (0,))
              for y in ((-1, 0, 1) if pbc[1] else (0,)) for z in ((-1, 0, 1) if pbc[2] else (0,))]
    nwrong, first = 0, None
    for lo in range(0, n, 256):                     # blocks of rows: the n x n tables never exist as a whole
        hi = min(n, lo + 256)
        best = None
        for sh in shifts:
            m = None
            for j in range(3):
                d = P[None, :, j] - P[lo:hi, None, j] + sh[j]
                m = d * d if m is None else m + d * d
            best = m if best is None else np.minimum(best, m)
        best[np.arange(hi - lo), np.arange(lo, hi)] = np.inf
        inside = best < c2 * (1 - 1e-9)
        near = (~inside) & (best < c2 * (1 + 1e-9))
        sub, cs = arr[lo:hi], coord[lo:hi]
        w = int(cs.max()) if hi > lo else 0
        mask = np.arange(w)[None, :] < cs[:, None]
        jj = sub[:, :w][mask]
        if ((jj < 0) | (jj >= n)).any():
            ctx.violate('range', f'{desc}: a list holds an index outside 0..{n - 1}', payload)
            return
        srt = np.where(mask, sub[:, :w], np.iinfo(np.int64).max)
        if w > 1 and (np.diff(srt, axis=1)[mask[:, 1:]] <= 0).any():
            ctx.violate('sorted', f'{desc}: a list is not strictly ascending (unsorted or duplicate)', payload)
            return
        listed = np.zeros((hi - lo, n), dtype=bool)
        listed[np.nonzero(mask)[0], jj] = True
        wrong = (listed != inside) & ~near
        for i, j in zip(*np.nonzero(near & (listed != inside))):
            pair = dict(case, pos=[case['pos'][lo + int(i)], case['pos'][int(j)]])
            k = exact_classes(pair)[(0, 1)]
            if (k == 'in' and not listed[i, j]) or (k == 'out' and listed[i, j]):
                wrong[i, j] = True
        if wrong.any():
            nwrong += int(wrong.sum())
            if first is None:
                i, j = (int(x[0]) for x in np.nonzero(wrong))
                first = (lo + i, j, bool(listed[i, j]))
    if first is not None:
        i, j, was_listed = first
        d = _dist(dict(case, pos=[case['pos'][i], case['pos'][j]]), 0, 1)
        if was_listed:
            ctx.violate('spurious', f'{desc}: atoms {i} and {j} are listed as neighbors but their periodic distance {d:.12g} '
                        f'is not below the cutoff ({nwrong} wrong entries in all)', payload)
        else:
            ctx.violate('missing', f'{desc}: atoms {i} and {j} are closer than the cutoff (periodic distance {d:.12g}) but '
                        f'are not neighbors ({nwrong} wrong entries in all; atom {i} has {int(coord[i])} neighbors)', payload)


def scale_checks(ctx, rng, tmpdir, broken):
    # counts and thresholds through the load path: every small switching size in every run, the 2^15 / 2^16 ones in every
    # run, the others in turn (all of them in a thorough run or when a proof / translator obligation has failed)
    sizes = list(THRESHOLD_SMALL) + list(THRESHOLD_EVERY_RUN)
    if ctx.thorough or broken:
        sizes += THRESHOLD_ROTATING
    else:
        sizes += [THRESHOLD_ROTATING[(3 * ctx.seed + k) % len(THRESHOLD_ROTATING)] for k in range(3)]
    for n in sizes:
        n, rows = gen_threshold_rows(rng, n)
        check_large_rows(ctx, n, rows, tmpdir)
        if len(ctx.violations) >= 6:
            return
    for _ in range(ctx.n(1, 12) * (2 if broken else 1)):
        n, rows = gen_large_rows(rng)
        check_large_rows(ctx, n, rows, tmpdir)
        if len(ctx.violations) >= 6:
            return
    # seven-digit indices (a file of more than 1 000 000 lines: 6 s): every other seed of a quick run, always in a thorough
    # run or after a failed obligation
    for _ in range(ctx.n(1, 3) if (ctx.thorough or broken or ctx.seed % 2 == 1) else 0):
        n, rows = gen_large_rows(rng, digits=7)
        check_large_rows(ctx, n, rows, tmpdir)
        if len(ctx.violations) >= 6:
            return
    for _ in range(ctx.n(3, 20) * (2 if broken else 1)):
        n, rows = gen_hub_rows(rng)
        check_large_rows(ctx, n, rows, tmpdir)
        if len(ctx.violations) >= 6:
            return
    balls = [(rng.randrange(10 ** 6), rng.randint(1002, 1150), ALL_PBC[rng.randrange(8)], rng.choice([1, 3, 20]),
              rng.choice([1, 7, 10, 25])) for _ in range(ctx.n(1, 6) + (1 if broken else 0))]
    for seed, nball, pbc, init, delta in balls:
        _trace({'op': 'ball', 'seed': seed, 'nball': nball, 'pbc': list(pbc), 'init': init, 'delta': delta})
        check_ball(ctx, seed, nball, pbc, init, delta, tmpdir)
        if len(ctx.violations) >= 6:
            return
    # more than 2048 candidates in one distance call in every run (at most one periodic direction: the distance routine
    # then looks at 1 or 3 images per candidate, not 27), more than 4096 in a thorough run or after a failed obligation
    few = [p for p in ALL_PBC if sum(p) <= 1]
    clouds = [(rng.randrange(10 ** 6), 152, few[rng.randrange(4)], 20, 10)]
    if ctx.thorough or broken:
        clouds.append((rng.randrange(10 ** 6), 304, few[rng.randrange(4)] if ctx.thorough else (False, False, False), 40, 200))
    for seed, per_bin, pbc, init, delta in clouds:
        _trace({'op': 'cloud', 'seed': seed, 'per_bin': per_bin, 'pbc': list(pbc), 'init': init, 'delta': delta})
        check_cloud(ctx, seed, per_bin, pbc, init, delta)
        if len(ctx.violations) >= 6:
            return
    plans = [(shape, ALL_PBC[(ctx.seed + k) % 8], rng.choice([1, 6, 20]), rng.choice([1, 10]))
             for k, shape in enumerate(LATTICE_EVERY_RUN)]
    if ctx.thorough or broken:
        plans += [(47, (False, False, False), 6, 1), (47, (True, True, True), 1, 1), (48, (True, False, True), 20, 10),
                  (50, (False, True, False), 3, 2), ([32, 32, 64], (True, True, False), 6, 1), ([40, 41, 40], (False, True, True), 6, 4),
                  ([32, 32, 32], (True, False, False), 2, 1)]
    else:
        plans.append((LATTICE_ROTATING[ctx.seed % len(LATTICE_ROTATING)], ALL_PBC[(7 - ctx.seed) % 8], 6, 1))
    for m, pbc, init, delta in plans:
        _trace({'op': 'lattice', 'm': m, 'pbc': list(pbc), 'init': init, 'delta': delta})
        check_lattice(ctx, m, pbc, init, delta, tmpdir)
        if len(ctx.violations) >= 6:
            return


# ----------------------------------------------------------------------------------------
# search: the property's clauses on the real code
# ----------------------------------------------------------------------------------------
def _object_clauses(nl, rows, coord):
    """the observation points of the property agree with each other on one NeighborList object: len, `.coord`,
    `.nlist` (column 0 = coordination number, then the list), `[i]` for python / numpy / negative integers."""
    np = _np()
    n = len(rows)
    try:
        if len(nl) != n:
            return f'len(NeighborList) = {len(nl)} for {n} atoms'
        arr = np.asarray(nl.nlist)
        if arr.ndim != 2 or arr.shape[0] != n or arr.shape[1] < 1 + max(coord or [0]):
            return f'.nlist has shape {arr.shape} for {n} atoms with coordination up to {max(coord or [0])}'
        for i in range(n):
            if int(arr[i, 0]) != coord[i] or [int(j) for j in arr[i, 1:1 + coord[i]]] != rows[i]:
                return (f'.nlist[{i}] = {arr[i].tolist()[:coord[i] + 2]} does not start with the coordination number '
                        f'{coord[i]} followed by the list {rows[i]}')
        for key, i in ((np.int64(n - 1), n - 1), (-1, n - 1), (np.int32(0), 0), (-n, 0)):
            got = [int(j) for j in nl[key]]
            if got != rows[i]:
                return f'NeighborList[{key!r}] = {got} but NeighborList[{i}] = {rows[i]}'
    except Exception as e:  # noqa
        return f'reading the NeighborList raised {type(e).__name__}: {e}'
    return None


def _search_case(ctx, case, kind, name, full, tmpdir=None):
    n = len(case['pos'])
    init, delta = case['init'] or 20, case['delta'] or 10
    try:
        system = _system(case)
        before = _snapshot(system)
        nl = _build(case, system, init, delta, 0)
        rows = _rows(nl)
        coord = [int(c) for c in nl.coord]
    except Exception as e:  # noqa
        ctx.violate('raises', f'neighbor list construction raised {type(e).__name__}: {e} [{kind}; natoms={n}, '
                    f'pbc={case["pbc"]}, initialsize={init}, deltasize={delta}]', _payload(case))
        return
    if _snapshot(system) != before:
        ctx.violate('input-modified', f'building the neighbor list changed the System it was given (positions / box / pbc '
                    f'no longer bitwise what they were) [{kind}; natoms={n}, pbc={case["pbc"]}]', _payload(case))
        return
    cls = exact_classes(case)
    nin = sum(1 for k in cls.values() if k == 'in')
    if n >= 2 and (n + init + delta) % 16 == 0:
        _oracle_selfcheck(ctx, case, cls)
    ctx.stats.case('oracle:' + kind, (name, json.dumps(case, sort_keys=True)), nontrivial=nin > 0,
                   sample={'natoms': n, 'pbc': case['pbc'], 'cutoff': case['cutoff'], 'pairs_below_cutoff': nin,
                           'initialsize': init, 'deltasize': delta})
    for key, what in clauses(case, rows, coord, cls)[:2]:
        ctx.violate(key, what + f' [{kind}; natoms={n}, pbc={case["pbc"]}, initialsize={init}, deltasize={delta}'
                    + (f', vects={case["vects"]}, origin={case["origin"]}' if n <= 8 else '')
                    + (f'; {case["variant"]}' if case.get('variant') else '') + ']', _payload(case))
        return
    if full and (n + init + delta) % 4 == 2:
        if not _equivalent_clause(ctx, case, rows, cls, kind, init, delta):
            return
    if full:
        bad = _object_clauses(nl, rows, coord)
        if bad:
            ctx.violate('object', bad + f' [{kind}; natoms={n}, pbc={case["pbc"]}, initialsize={init}, '
                        f'deltasize={delta}]', _payload(case))
            return
    if full and tmpdir is not None and n <= 60:
        if _roundtrip_real(ctx, case, nl, rows, tmpdir, kind, n + init) is None:
            return
    if full:
        # independence of the storage parameters, and the two public entry points
        alt = [(1, 1), (25, 25), (None, None)][(n + init) % 3]
        try:
            nl2 = _build(case, system, alt[0], alt[1], 1)
            rows2 = _rows(nl2)
        except Exception as e:  # noqa
            ctx.violate('raises', f'System.neighborlist(initialsize={alt[0]}, deltasize={alt[1]}) raised '
                        f'{type(e).__name__}: {e}', _payload(case, init2=alt[0], delta2=alt[1]))
            return
        if rows2 != rows or [int(c) for c in nl2.coord] != coord:
            ctx.violate('storage', f'result depends on the storage sizes: initialsize/deltasize {init}/{delta} gives '
                        f'{rows}, {alt[0]}/{alt[1]} gives {rows2}', _payload(case, init2=alt[0], delta2=alt[1]))
            return
        # round 5: the direct call with both sizes left out (`nlist(system, cutoff)`: the defaults of nlist.pyx itself,
        # which no call through NeighborList ever uses)
        try:
            rows2 = _rows(_build(case, system, None, None, 0, 3))
        except Exception as e:  # noqa
            ctx.violate('raises', f'nlist(system, cutoff) raised {type(e).__name__}: {e}', _payload(case, direct=1))
            return
        if rows2 != rows:
            ctx.violate('storage', f'result depends on the storage sizes: initialsize/deltasize {init}/{delta} gives '
                        f'{rows}, nlist(system, cutoff) with both left out gives {rows2}', _payload(case, direct=1))
            return
        # the same values handed over as other python / numpy types, and nlist() called positionally
        form = 1 + (n + init + delta) % 3
        try:
            rows3 = _rows(_build(case, system, init, delta, (n + delta) % 2, form))
        except Exception as e:  # noqa
            ctx.violate('forms', f'neighbor list construction with {FORMS[form]} (cutoff {_cutoff_form(case["cutoff"], form)!r} '
                        f'of type {type(_cutoff_form(case["cutoff"], form)).__name__}) raised {type(e).__name__}: {e}',
                        _payload(case, form=form))
            return
        if rows3 != rows:
            ctx.violate('forms', f'result depends on the type of the arguments: {FORMS[form]} (cutoff '
                        f'{_cutoff_form(case["cutoff"], form)!r} of type {type(_cutoff_form(case["cutoff"], form)).__name__}) '
                        f'gives {rows3}, python float / int give {rows}', _payload(case, form=form))
            return
        # very large storage parameters (small systems only: the array is natoms x (initialsize + 1))
        if n <= 12 and (n + init) % 5 == 0:
            big = [(1000, 1), (1, 1000), (65537, 3), (300, 100000)][(n + delta) % 4]
            try:
                rows4 = _rows(_build(case, system, big[0], big[1], 0))
            except Exception as e:  # noqa
                ctx.violate('raises', f'NeighborList(initialsize={big[0]}, deltasize={big[1]}) raised {type(e).__name__}: {e}',
                            _payload(case, init2=big[0], delta2=big[1]))
                return
            if rows4 != rows:
                ctx.violate('storage', f'result depends on the storage sizes: initialsize/deltasize {init}/{delta} gives '
                            f'{rows}, {big[0]}/{big[1]} gives {rows4}', _payload(case, init2=big[0], delta2=big[1]))
                return
        # results are fresh arrays: scribbling over one result changes neither another result nor a later call
        if (n + init) % 4 == 0:
            try:
                np_ = _np()
                np_.asarray(nl.nlist)[...] = -7
                rows5 = _rows(_build(case, system, init, delta, 0))
                if _rows(nl2) != rows or rows5 != rows:
                    ctx.violate('aliased', f'after overwriting the array of one result (NeighborList.nlist[...] = -7) another '
                                f'result of the same system reads {_rows(nl2)} and a new call gives {rows5}; expected {rows}',
                                _payload(case, stage='scribble'))
                    return
            except ValueError:
                pass                # a read-only result cannot be scribbled over: nothing to check
        # exact scaling: on the dyadic grids multiplying cell, origin, positions and cutoff by 2^k changes no bit of any
        # mantissa, every comparison comes out the same (k up to where the squares stay inside the double range)
        if case['regime'] == 'grid' and not case.get('dtype') and not case.get('fine') and (n + delta) % 3 == 0:
            if not _scale_clause(ctx, case, rows, kind):
                return
        # lists agree with am.dmag of the real code (outside the tie band)
        if n >= 2:
            _dmag_crosscheck(ctx, case, system, rows, cls)
        if kind in ('shear', 'general', 'grid') and 2 <= n <= 40:
            ctx.extra['_tn'] = ctx.extra.get('_tn', 0) + 1
            if ctx.extra['_tn'] % 4 == 0:
                _true_nearest_report(ctx, case, rows)


def _oracle_selfcheck(ctx, case, cls):
    """the sparse oracle (dictionary of cells + exact integers) against the all-pairs oracle on a small case."""
    np = _np()
    P = np.abs(np.array(case['pos'], dtype=float))
    if float(P.max()) / case['cutoff'] >= 1e8:
        return
    inside, tie = exact_neighbors_sparse(case)
    if inside != {k for k, v in cls.items() if v == 'in'} or tie != {k for k, v in cls.items() if v == 'tie'}:
        raise cm.InfraError(f'C03 harness: sparse and all-pairs oracle disagree on {json.dumps(case)}')
    ctx.extra['sparse_oracle_selfchecks'] = ctx.extra.get('sparse_oracle_selfchecks', 0) + 1


def _search_chain(ctx, case, kind, tmpdir, it):
    """thousands of atoms with few neighbors each: the clauses with the sparse oracle, the object clauses, other
    storage sizes through the other entry point, the file round trip."""
    n = len(case['pos'])
    init, delta = case['init'] or 20, case['delta'] or 10
    try:
        system = _system(case)
        nl = _build(case, system, init, delta, it % 2)
        rows = _rows(nl)
        coord = [int(c) for c in nl.coord]
    except Exception as e:  # noqa
        ctx.violate('raises', f'neighbor list construction raised {type(e).__name__}: {e} [{kind}; natoms={n}, '
                    f'pbc={case["pbc"]}, initialsize={init}, deltasize={delta}]', _payload(case))
        return
    sp = exact_neighbors_sparse(case)
    ctx.stats.case('oracle:' + kind, json.dumps(case, sort_keys=True), nontrivial=len(sp[0]) > 0,
                   sample={'natoms': n, 'pbc': case['pbc'], 'cutoff': case['cutoff'], 'pairs_below_cutoff': len(sp[0]),
                           'initialsize': init, 'deltasize': delta, 'long_axis': case.get('long_axis')})
    tag = f' [{kind}; natoms={n}, pbc={case["pbc"]}, initialsize={init}, deltasize={delta}]'
    for key, what in clauses_sparse(case, rows, coord, sp)[:1]:
        ctx.violate(key, what + tag, _payload(case))
        return
    bad = _object_clauses(nl, rows, coord)
    if bad:
        ctx.violate('object', bad + tag, _payload(case))
        return
    try:
        rows2 = _rows(_build(case, system, 1, 1, 1 - it % 2))
    except Exception as e:  # noqa
        ctx.violate('raises', f'neighbor list construction with initialsize=1, deltasize=1 raised {type(e).__name__}: {e}'
                    + tag, _payload(case, init2=1, delta2=1))
        return
    if rows2 != rows:
        i = [k for k in range(n) if k >= len(rows2) or rows2[k] != rows[k]][0]
        ctx.violate('storage', f'result depends on the storage sizes: atom {i}: {rows[i]} with {init}/{delta}, '
                    f'{rows2[i] if i < len(rows2) else None} with 1/1' + tag, _payload(case, init2=1, delta2=1))
        return
    if tmpdir is not None:
        _roundtrip_real(ctx, case, nl, rows, tmpdir, kind, it)


SCALE_EXPONENTS = [-480, -400, -300, -200, -100, -60, -30, -10, 10, 30, 60, 100, 200, 300, 400, 480]


def _scaled_case(case, k):
    np = _np()
    f = math.ldexp(1.0, k)
    c2 = dict(case)
    c2['vects'] = (np.array(case['vects']) * f).tolist()
    c2['origin'] = [x * f for x in case['origin']]
    c2['pos'] = (np.array(case['pos']).reshape(-1, 3) * f).tolist()
    c2['cutoff'] = case['cutoff'] * f
    return c2


def _scale_clause(ctx, case, rows, kind):
    """False after a violation."""
    np = _np()
    big = float(max(np.abs(np.array(case['pos'])).max() if len(case['pos']) else 0.0, np.abs(np.array(case['vects'])).sum(),
                    case['cutoff']))
    ks = [k for k in SCALE_EXPONENTS if 2 * (math.log2(big) + abs(k)) + 4 < 1020]
    k = ks[(len(rows) + int(case['cutoff'] * 8)) % len(ks)]
    c2 = _scaled_case(case, k)
    try:
        s2 = _system(c2)
        if c2['vects'] != _scaled_case(case, k)['vects']:
            return True             # Box normalised the scaled cell differently (C01): not this property
        r2 = _rows(_build(c2, s2, case['init'] or 20, case['delta'] or 10, 0))
    except Exception as e:  # noqa
        ctx.violate('scale', f'the same system with every length multiplied by 2^{k} (cutoff {c2["cutoff"]!r}): neighbor '
                    f'list construction raised {type(e).__name__}: {e} [{kind}]', _payload(c2))
        return False
    ctx.extra['scaled_cases'] = ctx.extra.get('scaled_cases', 0) + 1
    if r2 != rows:
        bad = clauses(c2, r2, [len(r) for r in r2])
        what = bad[0][1] if bad else f'lists {r2} instead of {rows}'
        ctx.violate('scale', f'every length multiplied by 2^{k} (an exact operation on this dyadic-grid system, cutoff '
                    f'{c2["cutoff"]!r}) changes the neighbor lists: {what} [{kind}; natoms={len(rows)}, pbc={case["pbc"]}]',
                    _payload(c2))
        return False
    return True


def _equivalent_clause(ctx, case, rows, cls, kind, init, delta):
    """the same system described differently (`_variant`: mirrored through coordinate planes, Cartesian axes renamed,
    cell vectors listed in another order, spanned from the far face of a vector) has the same lists; pairs inside the
    tie band may differ in the float regimes (another summation order), nothing may differ on the dyadic grids.
    False after a violation."""
    n = len(rows)
    vc, how = _variant(case, random.Random(n * 1009 + init * 31 + delta))
    if how == 'as generated':
        return True
    try:
        rows_v = _rows(_build(vc, _system(vc), init, delta, 1))
    except Exception as e:  # noqa
        ctx.violate('equivalent', f'the same system {how}: neighbor list construction raised {type(e).__name__}: {e} '
                    f'[{kind}; natoms={n}, pbc={vc["pbc"]}, vects={vc["vects"]}]', _payload(vc))
        return False
    ctx.extra['equivalent_descriptions'] = ctx.extra.get('equivalent_descriptions', 0) + 1
    if rows_v == rows:
        return True
    for i in range(n):
        a, b = set(rows[i]), set(rows_v[i]) if i < len(rows_v) else set()
        for j in sorted(a ^ b):
            if cls.get((min(i, j), max(i, j))) != 'tie':
                bad = clauses(vc, rows_v, [len(r) for r in rows_v])
                what = bad[0][1] if bad else f'atom {i}: {rows_v[i] if i < len(rows_v) else None} instead of {rows[i]}'
                ctx.violate('equivalent', f'the same system {how} (cell vectors {vc["vects"]}, origin {vc["origin"]}, pbc '
                            f'{vc["pbc"]}) has other neighbor lists: {what} [{kind}; natoms={n}, initialsize={init}, '
                            f'deltasize={delta}]', _payload(vc))
                return False
    return True


def _dmag_crosscheck(ctx, case, system, rows, cls):
    np = _np()
    n = len(rows)
    i = (n * 7 + len(rows[0])) % n
    d = np.atleast_1d(system.dmag(i, list(range(n))))
    listed = set(rows[i])
    c = case['cutoff']
    for j in range(n):
        if j == i:
            continue
        if cls.get((min(i, j), max(i, j))) == 'tie' or abs(d[j] - c) <= 1e-9 * c:
            continue
        if (d[j] < c) != (j in listed):
            ctx.violate('dmag', f'System.dmag({i},{j}) = {d[j]!r} vs cutoff {c!r} but listed={j in listed}',
                        _payload(case))
            return


def search(ctx, broken):
    _isolated(ctx, lambda c: _search(c, broken), 'the failing-input search')


def _search(ctx, broken):
    rng = random.Random(ctx.seed * 7919 + 3)
    if canary(ctx):
        return
    for name, case in load_corpus():
        _search_case(ctx, case, 'corpus', name, True)
    mult = 3 if broken else 1
    plan = [('dense', gen_dense, ctx.n(40, 1500) * mult), ('shear', gen_shear, ctx.n(600, 8000) * mult),
            ('hunt', gen_hunt, ctx.n(2800, 36000) * mult), ('general', gen_general, ctx.n(250, 6000) * mult),
            ('grid', gen_grid, ctx.n(250, 6000) * mult), ('edges', gen_edges, ctx.n(100, 2400) * mult),
            ('fine', gen_fine, ctx.n(500, 9000) * mult), ('nearcut', gen_nearcut, ctx.n(400, 8000) * mult),
            ('crystal', gen_crystal, ctx.n(60, 1000) * mult), ('narrowbin', gen_narrowbin, ctx.n(300, 6000) * mult),
            ('bigcut', gen_bigcut, ctx.n(500, 8000) * mult), ('elongated', gen_elongated, ctx.n(150, 2400) * mult),
            ('signed', gen_signed, ctx.n(480, 4800) * mult)]
    with tempfile.TemporaryDirectory(prefix='c03_') as tmpdir:
        import time
        ph = ctx.extra.setdefault('phase_seconds', {})
        vrng = random.Random(ctx.seed * 6007 + 11)
        for kind, gen, count in plan:
            t0 = time.time()
            for it in range(count):
                case = gen(rng, it)
                if it % 4 == 3 and kind != 'signed':
                    # every generator family also in an equivalent description (mirrored through coordinate planes: negative
                    # diagonal entries; axes renamed; cell vectors reordered; spanned from another corner)
                    case, how = _variant(case, vrng)
                    case['variant'] = how
                _trace(_payload(case, stage='crash'))
                _search_case(ctx, case, kind, kind, full=(kind != 'hunt' or it % 8 == 0),
                             tmpdir=tmpdir if it % 3 == 0 else None)
                if len(ctx.violations) >= 6:
                    return
            ph['oracle:' + kind] = round(time.time() - t0, 1)
            _checkpoint(ctx)
        t0 = time.time()
        for it in range(ctx.n(3, 24) * (2 if broken else 1)):
            case = gen_chain(rng, it) if not ctx.thorough or it % 4 else gen_chain(rng, it, nmin=5000, nmax=20000)
            _trace(_payload(case, stage='crash'))
            _search_chain(ctx, case, 'chain', tmpdir, it)
            if len(ctx.violations) >= 6:
                return
        if ctx.thorough or broken:
            # bin indices beyond 2^13 .. 2^16 along one axis (few atoms)
            for it in range(ctx.n(12, 120)):
                case = gen_elongated(rng, it, nmin=5000, nmax=40000)
                _trace(_payload(case, stage='crash'))
                _search_case(ctx, case, 'elongated', 'elongated-long', full=True, tmpdir=None)
                if len(ctx.violations) >= 6:
                    return
        ph['oracle:chain'] = round(time.time() - t0, 1)
        _checkpoint(ctx)
        t0 = time.time()
        for it in range(ctx.n(150, 3000) * mult):
            run_sequence(ctx, rng, it, 'oracle', tmpdir, trace=_trace)
            if len(ctx.violations) >= 6:
                return
        ph['oracle:sequence'] = round(time.time() - t0, 1)
        t0 = time.time()
        scale_checks(ctx, rng, tmpdir, broken)
        ph['oracle:scale'] = round(time.time() - t0, 1)
    if ctx.thorough:
        _exhaustive_small(ctx)


def _exhaustive_small(ctx):
    """all 2-atom configurations on a coarse dyadic grid in a small orthogonal cell, all pbc settings."""
    np = _np()
    q = 4
    L = [2.0, 2.5, 3.0]
    pts = [[x / q * 1.0, y / q * 1.0, z / q * 1.0] for x in range(0, 9, 2) for y in range(0, 11, 2) for z in range(0, 13, 3)]
    cases = []
    for cutoff in (1.0, 1.25, 2.0):
        for pbc in ALL_PBC:
            for a in range(0, len(pts), 3):
                for b in range(a + 1, len(pts), 5):
                    cases.append(_case(np.diag(L), [0.25, -0.5, 1.0],
                                       [[pts[a][k] + [0.25, -0.5, 1.0][k] for k in range(3)],
                                        [pts[b][k] + [0.25, -0.5, 1.0][k] for k in range(3)]], pbc, cutoff, 'grid', 1, 1))
    for case in cases:
        _trace(_payload(case, stage='crash'))
        _search_case(ctx, case, 'exhaustive2', 'exh', False)
        if len(ctx.violations) >= 6:
            return


def replay(ctx, payload):
    _isolated(ctx, lambda c: _replay(c, payload), 'the replay')


def _replay(ctx, payload):
    r = payload.get('replay', {})
    if r.get('op') == 'sequence':
        with tempfile.TemporaryDirectory(prefix='c03_') as tmpdir:
            res = _forked(lambda report: run_sequence(_NullCtx(), random.Random(0), 0, 'preflight', tmpdir, script=r,
                                                      trace=report))
            if res is not None:
                ctx.violate('crash', f'the operation sequence terminates the interpreter (signal {res[1]})', r)
                return
            run_sequence(ctx, random.Random(0), 0, 'oracle', tmpdir, script=r)
            if ctx.driver is not None:
                run_sequence(ctx, random.Random(0), 0, 'corr', tmpdir, script=r)
        return
    if r.get('op') in ('sequence-crash', 'crash'):
        _search(ctx, True)
        return
    if r.get('op') == 'large':
        with tempfile.TemporaryDirectory(prefix='c03_') as tmpdir:
            check_large_rows(ctx, r['n'], r['rows'], tmpdir)
        return
    if r.get('op') == 'ball':
        with tempfile.TemporaryDirectory(prefix='c03_') as tmpdir:
            check_ball(ctx, r['seed'], r['nball'], r['pbc'], r['init'], r['delta'], tmpdir)
        return
    if r.get('op') == 'cloud':
        check_cloud(ctx, r['seed'], r['per_bin'], r['pbc'], r['init'], r['delta'])
        return
    if r.get('op') == 'lattice':
        with tempfile.TemporaryDirectory(prefix='c03_') as tmpdir:
            check_lattice(ctx, r['m'], r['pbc'], r['init'], r['delta'], tmpdir)
        return
    case = r.get('case')
    if not case:
        _search(ctx, True)
        return
    res = _run_forked([case])
    if res is not None:
        ctx.violate('crash', f'building the neighbor list terminates the interpreter (signal {res[1]})', r)
        return
    system = _system(case)
    nl = _build(case, system, case.get('init') or 20, case.get('delta') or 10, 0)
    rows = _rows(nl)
    coord = [int(c) for c in nl.coord]
    if len(rows) > 400:
        sp = exact_neighbors_sparse(case)
        print('replay natoms', len(rows), 'pairs below cutoff (exact):', len(sp[0]), 'listed pairs:', sum(coord) // 2)
        for key, what in clauses_sparse(case, rows, coord, sp):
            ctx.violate(key, what, _payload(case))
    else:
        print('replay natoms', len(rows), 'rows', rows, 'coord', coord)
        cls = exact_classes(case)
        print('pairs below cutoff (exact):', [k for k, v in cls.items() if v == 'in'])
        for key, what in clauses(case, rows, coord, cls):
            ctx.violate(key, what, _payload(case))
    bad = _object_clauses(nl, rows, coord)
    if bad:
        ctx.violate('object', bad, _payload(case))
    if 'init2' in r:
        nl2 = _build(case, system, r['init2'], r['delta2'], 1)
        if _rows(nl2) != rows:
            ctx.violate('storage', f'result depends on the storage sizes: {rows} vs {_rows(nl2)}', r)
    if r.get('direct'):
        rows2 = _rows(_build(case, system, None, None, 0, 3))
        print('nlist(system, cutoff):', rows2 if len(rows2) <= 400 else '...')
        if rows2 != rows:
            ctx.violate('storage', 'result depends on the storage sizes: nlist(system, cutoff) with both sizes left out '
                        'gives other lists than the call with sizes', r)
    if r.get('stage') == 'roundtrip':
        with tempfile.TemporaryDirectory(prefix='c03_') as tmpdir:
            _roundtrip_real(ctx, case, nl, rows, tmpdir, 'replay',
                            r['it'] if 'it' in r else {'path': 0, 'content': 1, 'file': 2}.get(r.get('how'), 0))
    if 'form' in r:
        rows3 = _rows(_build(case, system, case.get('init') or 20, case.get('delta') or 10, 0, r['form']))
        if rows3 != rows:
            ctx.violate('forms', f'result depends on the type of the arguments ({FORMS[r["form"]]}): {rows3} vs {rows}', r)
    if ctx.driver is not None:
        out = ctx.driver.ask(_line(case, case.get('init') or 20, case.get('delta') or 10))
        print('model:', out[:400])


MANIFEST = {
    'text': 'Lean model (exact over Q) of nlist.pyx: superbox, cutoff-sized bins, ghost images, the bin table xyzbins as '
            'fixed-capacity rows with the growth block translated from the source on every run (initial maxatomsperbin, '
            'trigger, widths, copy loop) and as lists, half-stencil sweep over every occupied bin, dmag2 test on real '
            'indices, sorted symmetric insertion on growing lists and on fixed-capacity rows with initialsize/deltasize '
            'growth, NeighborList coord/[i], text dump/load, and an object-level model (operations on a System between '
            'calls, answers). Proved for all inputs: rows strictly ascending / symmetric / irreflexive / in range, coord '
            '= length (alg_inv, storage_coord); every listed pair is below the cutoff (alg_sound); output = ascending '
            'filter of the compared pairs, independent of their order (alg_eq_compared, alg_order_irrelevant); capacity '
            'rows refine lists for every initialsize, deltasize >= 1 and every np.empty garbage (storage_refines; the '
            'growth constants of the source are the modelled ones: nbr_growth_as_modelled); the capacity bin table '
            'refines the list bins for every sound growth block and the block in the source is sound (bins_refine, '
            'src_bins_sound, cands_table_eq); for atoms inside the cell and cutoff > 0 the output with both capacity '
            'tables equals the specification sorted [j | j != i, dmag2 i j < cutoff^2] (alg_complete, nlistA_complete, '
            'nlistFull_complete, via adjacent_bins, ghost_exists, compared_complete); a call is answered from the state '
            'at the time of the call whatever happened before (answers_fresh, answers_history_independent, '
            'answers_complete); parse (render rows) = rows (nlist_text_roundtrip), and the text dump writes according '
            'to the source of the run is render (dump_as_modelled, src_dump_roundtrip); every real variable of nlist / '
            'dmag2_c is declared double, cutoff2 = cutoff*cutoff, binsize = cutoff, the distance / self / minimum tests '
            'are the strict modelled ones, coord / [i] are column 0 / the columns from 1 cut at coord (src_reals_double, '
            'src_scalars_as_modelled, getitem_as_modelled); the specification and, for atoms inside the cell, the computed '
            'lists are unchanged when every length is multiplied by s > 0 or the whole system is translated '
            '(spec_scale_invariant, nlist_scale_invariant, spec_translate_invariant, nlist_translate_invariant), mirrored '
            'through coordinate planes (any sign pattern of the Cartesian components: negative diagonal entries, left-handed '
            'cells), spanned from the far face of any cell vectors, its vectors listed in another order or its axes renamed '
            '(spec_/nlist_ mirror_, farface_, reorder_, axes_invariant); a cutoff '
            'above the Frobenius norm of a sheared cell does not make all pairs neighbors (example). Tie: translator (growth '
            'blocks, declared C types, scalar expressions and tests, dump formats, build / __getitem__, and every other '
            'statement of nlist / unique_rows2 / dmag2_c / NeighborList.load / __init__ pinned) + differential correspondence with the real '
            'NeighborList / System.neighborlist / nlist on identical rational inputs (rows, coord, storage width, dumped '
            'text, re-loaded rows, whole operation sequences on one object). Round 5: nlist.pyx read as a syntax tree -> '
            'Generated/NlistSource.lean (superbox corners / expression / min-max tests / padding, arange stop, digitize offset, '
            'shift ranges per periodic flag, ghost loop nest, image coordinate, strict superbox test, stencil loops, centre and '
            'skip tests, pair-loop start, scans of the sorted insertion, default storage sizes of nlist and NeighborList.build) '
            'with obligations gen_..._eq_model; call forms (sizes given / left out through the object API / left out in a direct '
            'call) in model, driver and correspondence, nlistCall_complete end to end.',
    'note': 'Trusted: Lean kernel + propext/Classical.choice/Quot.sound; the correspondence harness; numpy '
            'arange/digitize/unique inside nlist.pyx; IEEE rounding of the distance test is exempt only inside the '
            'derived band u(16 S/c + 8) around the cutoff (about 1e-14..1e-12 relative) outside the dyadic-grid regimes '
            '(exact there). The sweep order of np.unique is not modelled (proved '
            'irrelevant). Periodic distance = the 27-candidate distance of C02; pairs nearer only through a second '
            'image in strongly sheared cells are counted, not claimed.',
    'technique': 'Lean 4 theorems over a hand-written executable model + translator (growth blocks, geometry, insertion scans, defaults) + differential '
                 'correspondence + exact oracle',
}
