"""C08 — loading what was dumped returns the system (LAMMPS data / dump, table, POSCAR)."""
from __future__ import annotations

import ast
import io
import math
import os
import random
import re
import tempfile
from fractions import Fraction

from .. import common as cm
from ..translate import TranslationError
from . import c07

PROP = 'C08'
GENERATED = ['LoadStyles', 'AtomStyles', 'LoadSource', 'WriterSource']


# ----------------------------------------------------------------------------------------
# translator: the column tables of the LOADER (separate source files from the writer's)
# ----------------------------------------------------------------------------------------

def extract_load_tables():
    real_unit, unit_names = c07._real_style()
    stub = c07._StubStyle(real_unit)
    probe = 'si' if 'si' in unit_names else unit_names[0]
    out = {'errors': {}}
    forwarded = True
    for key, rel, fname in (('atom', 'atomman/load/atom_data/atoms_prop_info.py', 'atoms_prop_info'),
                            ('vel', 'atomman/load/atom_data/velocities_prop_info.py', 'velocities_prop_info')):
        ns = {'style': stub}
        tree = c07._exec_without_imports(cm.source(rel), ns, rel)
        if fname not in ns:
            raise TranslationError(f'{rel}: function {fname} not found')
        fn = [n for n in tree.body if isinstance(n, ast.FunctionDef) and n.name == fname][0]
        names = c07._style_names(fn, 'atom_style')
        if not names:
            raise TranslationError(f'{rel}: no atom styles found')
        table = []
        for st in names:
            notes = set()
            try:
                cols = c07._cols(ns[fname](st, probe), probe, f'{fname}({st!r})', notes)
            except TranslationError:
                raise
            except Exception as e:  # the real function raises for this style: recorded, columns empty
                out['errors'][f'{fname}:{st}'] = f'{type(e).__name__}: {e}'
                cols = []
            if notes:
                forwarded = False
            table.append((st, cols))
        out[key] = table
        for sub in [s for s, c in table if c and s != 'atomic'][:3]:
            notes = set()
            try:
                c07._cols(ns[fname]('hybrid ' + sub, probe), probe, f'{fname}(hybrid {sub})', notes)
            except TranslationError:
                raise
            except Exception as e:
                out['errors'][f'{fname}:hybrid {sub}'] = f'{type(e).__name__}: {e}'
                forwarded = False
            if notes:
                forwarded = False
    rel = 'atomman/load/atom_dump/process_prop_info.py'
    ns = {'style': stub, 'deepcopy': __import__('copy').deepcopy, 'indexstr': None, 'Optional': None}
    src = cm.source(rel).replace('Optional[list]', 'object')
    c07._exec_without_imports(src, ns, rel)
    if 'standard_conversions' not in ns:
        raise TranslationError(f'{rel}: standard_conversions not found')
    notes = set()
    try:
        out['dump'] = c07._cols(ns['standard_conversions'](probe), probe, 'standard_conversions', notes)
    except TranslationError:
        raise
    except Exception as e:
        raise TranslationError(f'{rel}: standard_conversions({probe!r}) raises {type(e).__name__}: {e}')
    # does it also work for a unit style without units (lj)?
    lj_ok = True
    if 'lj' in unit_names:
        try:
            # with the real unit table: lj has None for every unit
            ns_real = dict(ns)
            ns_real['style'] = type('RealStyle', (), {'unit': staticmethod(real_unit)})
            c07._exec_without_imports(src, ns_real, rel)
            ns_real['standard_conversions']('lj')
        except Exception as e:
            out['errors']['standard_conversions:lj'] = f'{type(e).__name__}: {e}'
            lj_ok = False
    out['dump_lj_ok'] = lj_ok
    if notes:
        forwarded = False
    out['forwards'] = forwarded
    return out


# ----------------------------------------------------------------------------------------
# translator, part 2: the READER code itself (atomman/load/{atom_data,atom_dump,poscar,table}/load.py)
# ----------------------------------------------------------------------------------------
# With `ast`, from /repo's current source: the `if / elif` chains of the two line loops as Lean decision functions
# (which branch a line selects, in the order of the code), the checks after the first pass of the data-file reader,
# the atom_style decision, the image-flag decision, the bounding-box inversion as Lean arithmetic, the index of the
# pp flags, the line numbers and the Cartesian test of the POSCAR reader, the sort key / skipped property / unit
# decision of the table reader, and normalised-statement pins for what cannot be a Lean definition (pandas calls,
# the bodies of the branches).  Proofs/C08_Source.lean proves every generated definition equal to the hand model's.

ERR_CLASS = {'ValueError': 'value', 'FileFormatError': 'format', 'FileNotFoundError': 'notfound',
             'AssertionError': 'assert', 'TypeError': 'type', 'NameError': 'name'}


def _lean_chars(s):
    return '[' + ', '.join("'" + ('\\' + c if c in "'\\" else c) + "'" for c in s) + ']'


def _lean_strlit(s):
    out = []
    for ch in s:
        if ch == '\\':
            out.append('\\\\')
        elif ch == '"':
            out.append('\\"')
        elif ch == '\n':
            out.append('\\n')
        elif ch == '\t':
            out.append('\\t')
        elif ord(ch) < 32 or ord(ch) > 126:
            raise TranslationError(f'character {ch!r} in a pinned statement')
        else:
            out.append(ch)
    return '"' + ''.join(out) + '"'


def _pin(stmts):
    return '[' + ',\n   '.join(_lean_strlit(ast.unparse(s)) for s in stmts) + ']'


def _fn(tree, name, rel):
    c = [n for n in tree.body if isinstance(n, ast.FunctionDef) and n.name == name]
    if len(c) != 1:
        raise TranslationError(f'{rel}: function {name} not found exactly once')
    return c[0]


def _body(fn):
    b = fn.body
    if b and isinstance(b[0], ast.Expr) and isinstance(b[0].value, ast.Constant) and isinstance(b[0].value.value, str):
        b = b[1:]
    return b


def _is_len_terms(e):
    return (isinstance(e, ast.Call) and isinstance(e.func, ast.Name) and e.func.id == 'len' and len(e.args) == 1
            and not e.keywords and isinstance(e.args[0], ast.Name) and e.args[0].id == 'terms')


def _line_loop(fn, rel):
    """the `for i, <line> in enumerate(fp)` loop inside the `with uber_open_rmode(data) as fp` of fn ->
       (statements before `if len(terms) > 0`, the chain `If` under it)"""
    withs = [n for n in _body(fn) if isinstance(n, ast.With)]
    loops = [s for w in withs for s in w.body if isinstance(s, ast.For)]
    if len(withs) != 1 or len(loops) != 1 or len(withs[0].body) != 1:
        raise TranslationError(f'{rel}: {fn.name}: expected one `with` holding one `for` loop')
    w, loop = withs[0], loops[0]
    if ast.unparse(w.items[0]) != 'uber_open_rmode(data) as fp' or ast.unparse(loop.iter) != 'enumerate(fp)' \
            or loop.orelse:
        raise TranslationError(f'{rel}: {fn.name}: the line loop is not `for i, line in enumerate(fp)` over uber_open_rmode(data)')
    if not (isinstance(loop.target, ast.Tuple) and len(loop.target.elts) == 2 and ast.unparse(loop.target.elts[0]) == 'i'):
        raise TranslationError(f'{rel}: {fn.name}: loop target')
    *pre, last = loop.body
    if not (isinstance(last, ast.If) and not last.orelse and isinstance(last.test, ast.Compare)
            and _is_len_terms(last.test.left) and len(last.test.ops) == 1 and isinstance(last.test.ops[0], ast.Gt)
            and ast.unparse(last.test.comparators[0]) == '0'):
        raise TranslationError(f'{rel}: {fn.name}: the loop body does not end in `if len(terms) > 0:`')
    if len(last.body) != 1 or not isinstance(last.body[0], ast.If):
        raise TranslationError(f'{rel}: {fn.name}: `if len(terms) > 0:` does not hold exactly one if / elif chain')
    return w, loop, pre, last.body[0]


def _chain(node, rel):
    """if / elif / ... -> [(test, body)], refusing a final else"""
    out = []
    while True:
        out.append((node.test, node.body))
        if not node.orelse:
            return out
        if len(node.orelse) == 1 and isinstance(node.orelse[0], ast.If):
            node = node.orelse[0]
        else:
            raise TranslationError(f'{rel}: an if / elif chain ends in an `else` branch')


def _cond(e, rel, flags=(), counters=(), positive=()):
    """a branch condition as a Lean Bool expression over `terms`, boolean flags, Nat counters"""
    if isinstance(e, ast.BoolOp) and isinstance(e.op, ast.And):
        return '(' + ' && '.join(_cond(v, rel, flags, counters, positive) for v in e.values) + ')'
    if isinstance(e, ast.Name) and e.id in flags:
        return e.id
    if isinstance(e, ast.Compare) and len(e.ops) == 1 and len(e.comparators) == 1:
        l, op, r = e.left, e.ops[0], e.comparators[0]
        if _is_len_terms(l) and isinstance(op, ast.Eq) and isinstance(r, ast.Constant) and type(r.value) is int and r.value >= 0:
            return f'(terms.length == {r.value})'
        if (isinstance(l, ast.Subscript) and isinstance(l.value, ast.Name) and l.value.id == 'terms'
                and isinstance(l.slice, ast.Constant) and type(l.slice.value) is int and l.slice.value >= 0
                and isinstance(op, ast.Eq) and isinstance(r, ast.Constant) and isinstance(r.value, str)):
            return f'termIs terms {l.slice.value} {_lean_chars(r.value)}'
        if isinstance(l, ast.Name) and l.id in counters and isinstance(op, ast.Eq) and isinstance(r, ast.Constant) \
                and type(r.value) is int and r.value >= 0:
            return f'({l.id} == {r.value})'
        if isinstance(l, ast.Name) and l.id in positive and isinstance(op, ast.Gt) and ast.unparse(r) == '0':
            return f'decide (0 < {l.id})'
    raise TranslationError(f'{rel}: branch condition `{ast.unparse(e)}` is outside the translated subset')


def _ifchain_lean(conds, none_value, indent='  '):
    L = []
    for k, c in enumerate(conds):
        L.append(f'{indent}{"if" if k == 0 else "else if"} {c} then {k}')
    L.append(f'{indent}else {none_value}')
    return '\n'.join(L)


def _arith(e, rel, names):
    """straight-line arithmetic over Rat: names, float constants, + -, min / max of a tuple"""
    if isinstance(e, ast.Name) and e.id in names:
        return e.id
    if isinstance(e, ast.Constant) and type(e.value) in (int, float):
        q = Fraction(e.value)
        return f'({q.numerator} : Rat)' if q.denominator == 1 else f'(({q.numerator} : Rat) / {q.denominator})'
    if isinstance(e, ast.BinOp) and isinstance(e.op, (ast.Add, ast.Sub)):
        return f'({_arith(e.left, rel, names)} {"+" if isinstance(e.op, ast.Add) else "-"} {_arith(e.right, rel, names)})'
    if isinstance(e, ast.Call) and isinstance(e.func, ast.Name) and e.func.id in ('min', 'max') and len(e.args) == 1 \
            and not e.keywords and isinstance(e.args[0], (ast.Tuple, ast.List)) and e.args[0].elts:
        return f'{e.func.id}L [' + ', '.join(_arith(x, rel, names) for x in e.args[0].elts) + ']'
    raise TranslationError(f'{rel}: expression `{ast.unparse(e)}` is outside the translated arithmetic')


def _raise_class(stmts, rel):
    if len(stmts) == 1 and isinstance(stmts[0], ast.Raise) and isinstance(stmts[0].exc, ast.Call) \
            and isinstance(stmts[0].exc.func, ast.Name) and stmts[0].exc.func.id in ERR_CLASS:
        return ERR_CLASS[stmts[0].exc.func.id]
    raise TranslationError(f'{rel}: expected a single `raise <known error>(...)`, found `{ast.unparse(stmts[0])[:60]}`')


def _is_none_test(e, rel, allowed):
    """`a is None` / `a is None or b is None` -> list of names"""
    vals = e.values if isinstance(e, ast.BoolOp) and isinstance(e.op, ast.Or) else [e]
    out = []
    for v in vals:
        if isinstance(v, ast.Compare) and isinstance(v.left, ast.Name) and v.left.id in allowed and len(v.ops) == 1 \
                and isinstance(v.ops[0], ast.Is) and isinstance(v.comparators[0], ast.Constant) \
                and v.comparators[0].value is None:
            out.append(v.left.id)
        else:
            raise TranslationError(f'{rel}: check `{ast.unparse(e)}` is outside the translated subset')
    return out


def translate_data_source(L):
    rel = 'atomman/load/atom_data/load.py'
    tree = ast.parse(cm.source(rel))
    fp = _fn(tree, 'firstpass', rel)
    w, loop, pre, chain_if = _line_loop(fp, rel)
    chain = _chain(chain_if, rel)
    conds = [_cond(t, rel, flags=('firstatoms',), positive=('num_masses_to_read',)) for t, _ in chain]
    L += ['/-! ### atomman/load/atom_data/load.py -/', '',
          f'/-- `firstpass`: which branch of the `if / elif` chain under `if len(terms) > 0` a line selects, in the order of',
          f'    the code ({len(conds)} = no branch). -/',
          'def firstpassBranch (terms : List (List Char)) (firstatoms : Bool) (num_masses_to_read : Nat) : Nat :=',
          _ifchain_lean(conds, len(conds)), '',
          '/-- the statements of the loop before the chain (decoding, cutting at `#`, `split()`), normalised. -/',
          f'def firstpassSplit : List String :=\n  {_pin(pre)}', '',
          '/-- the bodies of the branches, normalised, in the order of the chain. -/',
          'def firstpassBodies : List (List String) :=\n  [' + ',\n   '.join(_pin(b) for _, b in chain) + ']', '']
    # the checks after the loop, up to the construction of the box
    body = _body(fp)
    after = body[body.index(w) + 1:]
    checks = []
    k = 0
    allowed = ('natoms', 'xlo', 'xhi', 'ylo', 'yhi', 'zlo', 'zhi', 'atomsstart')
    while k < len(after) and isinstance(after[k], ast.If):
        st = after[k]
        if st.orelse:
            raise TranslationError(f'{rel}: a check after the first pass has an else branch')
        cls = _raise_class(st.body, rel)
        if ast.unparse(st.test) == 'i == 0':
            checks.append(('short', cls))
        else:
            checks.append(('(' + ' || '.join(_is_none_test(st.test, rel, allowed)) + ')', cls))
        k += 1
    if not checks:
        raise TranslationError(f'{rel}: no checks found after the first pass')
    L += ['/-- the checks after the loop of `firstpass` in the order of the code: the class of the first error raised',
          '    (`short`: `i == 0`; the other arguments say that the variable is still `None`). -/',
          'def firstpassCheck (short natoms xlo xhi ylo yhi zlo zhi atomsstart : Bool) : Option String :=']
    for j, (c, cls) in enumerate(checks):
        L.append(f'  {"if" if j == 0 else "else if"} {c} then some "{cls}"')
    L += ['  else none', '',
          '/-- what follows the checks (box, atoms, system, the returned parameters), normalised. -/',
          f'def firstpassTail : List String :=\n  {_pin(after[k:])}', '',
          '/-- the initial values of the variables of `firstpass`, normalised. -/',
          f'def firstpassInit : List String :=\n  {_pin([s for s in body[:body.index(w)] if isinstance(s, ast.Assign)])}', '']
    # load(): the atom_style decision
    ld = _fn(tree, 'load', rel)
    sty = [s for s in _body(ld) if isinstance(s, ast.If) and ast.unparse(s.test) == 'atom_style is None']
    if len(sty) != 1:
        raise TranslationError(f'{rel}: load: the atom_style decision was not found')
    st = sty[0]
    ok = (len(st.body) == 1 and isinstance(st.body[0], ast.If) and ast.unparse(st.body[0].test) == "params['atom_style'] is None"
          and len(st.body[0].body) == 1 and isinstance(st.body[0].body[0], ast.Assign)
          and ast.unparse(st.body[0].body[0].targets[0]) == 'atom_style' and isinstance(st.body[0].body[0].value, ast.Constant)
          and isinstance(st.body[0].body[0].value.value, str)
          and len(st.body[0].orelse) == 1 and ast.unparse(st.body[0].orelse[0]) == "atom_style = params['atom_style']"
          and len(st.orelse) == 1 and isinstance(st.orelse[0], ast.If) and not st.orelse[0].orelse
          and ast.unparse(st.orelse[0].test) == "params['atom_style'] is not None and atom_style != params['atom_style']")
    if not ok:
        raise TranslationError(f'{rel}: load: the atom_style decision has another structure')
    default = st.body[0].body[0].value.value
    cls = _raise_class(st.orelse[0].body, rel)
    L += ['/-- `load`: the atom_style used, from the argument and the comment of the `Atoms` line. -/',
          'def chooseStyle (arg hint : Option String) : Except String String :=',
          '  match arg with',
          f'  | none => match hint with | none => .ok {_lean_strlit(default)} | some h => .ok h',
          f'  | some a => match hint with | some h => if a != h then .error "{cls}" else .ok a | none => .ok a', '',
          '/-- the order of the calls of `load`, normalised (stream read first, first pass, comments removed, tables). -/',
          f'def dataLoadCalls : List String :=\n  {_pin([s for s in _body(ld) if s is not st])}', '']
    # read_atoms: the image-flag decision
    ra = _fn(tree, 'read_atoms', rel)
    outer = [s for s in _body(ra) if isinstance(s, ast.If)]
    if len(outer) != 1 or ast.unparse(outer[0].test) != 'atomsstart is not None' or outer[0].orelse:
        raise TranslationError(f'{rel}: read_atoms: `if atomsstart is not None` not found')
    inner = [s for s in outer[0].body if isinstance(s, ast.If)]
    if len(inner) != 1:
        raise TranslationError(f'{rel}: read_atoms: the column-count decision was not found')
    ch = _chain(inner[0], rel)
    if len(ch) != 2:
        raise TranslationError(f'{rel}: read_atoms: the column-count decision has {len(ch)} branches')
    t0, t1 = ch[0][0], ch[1][0]
    if not (isinstance(t0, ast.Compare) and ast.unparse(t0.left) == 'atomscolumns' and isinstance(t0.ops[0], ast.Eq)
            and isinstance(t0.comparators[0], ast.BinOp) and isinstance(t0.comparators[0].op, ast.Add)
            and ast.unparse(t0.comparators[0].left) == 'ncols' and isinstance(t0.comparators[0].right, ast.Constant)
            and type(t0.comparators[0].right.value) is int and t0.comparators[0].right.value >= 0):
        raise TranslationError(f'{rel}: read_atoms: `{ast.unparse(t0)}` is outside the translated subset')
    if ast.unparse(t1) not in ('ncols != atomscolumns', 'atomscolumns != ncols'):
        raise TranslationError(f'{rel}: read_atoms: `{ast.unparse(t1)}` is outside the translated subset')
    cls = _raise_class(ch[1][1], rel)
    L += ['/-- `read_atoms`: 0 = image flags follow the columns of the style, 1 = wrong number of columns (the error class',
          '    is `readAtomsError`), 2 = exactly the columns of the style. -/',
          'def readAtomsCase (atomscolumns ncols : Nat) : Nat :=',
          f'  if atomscolumns == ncols + {t0.comparators[0].right.value} then 0 else if ncols != atomscolumns then 1 else 2',
          f'def readAtomsError : String := "{cls}"', '',
          '/-- the table read of `read_atoms` and the image-flag read / sort / shift, normalised. -/',
          f'def readAtomsTable : List String :=\n  {_pin([s for s in outer[0].body if s is not inner[0]])}',
          f'def readAtomsFlags : List String :=\n  {_pin(ch[0][1])}', '',
          '/-- `read_mass`, `remove_comments`, `countreadcolumns`, `read_velocities`, normalised. -/',
          f'def readMass : List String :=\n  {_pin(_body(_fn(tree, "read_mass", rel)))}',
          f'def removeComments : List String :=\n  {_pin(_body(_fn(tree, "remove_comments", rel)))}',
          f'def countReadColumns : List String :=\n  {_pin(_body(_fn(tree, "countreadcolumns", rel)))}',
          f'def readVelocities : List String :=\n  {_pin(_body(_fn(tree, "read_velocities", rel)))}', '']


def translate_dump_source(L):
    rel = 'atomman/load/atom_dump/load.py'
    tree = ast.parse(cm.source(rel))
    ld = _fn(tree, 'load', rel)
    w, loop, pre, chain_if = _line_loop(ld, rel)
    chain = _chain(chain_if, rel)
    if len(chain) < 2:
        raise TranslationError(f'{rel}: header chain too short')
    *outer, (item_test, item_body) = chain
    oconds = [_cond(t, rel, flags=('readnatoms', 'readtimestep'), counters=('bcount',)) for t, _ in outer]
    item_cond = _cond(item_test, rel)
    if len(item_body) != 1 or not isinstance(item_body[0], ast.If):
        raise TranslationError(f'{rel}: the ITEM: branch does not hold exactly one if / elif chain')
    inner = _chain(item_body[0], rel)
    iconds = [_cond(t, rel) for t, _ in inner]
    n_o, n_i = len(oconds), len(iconds)
    L += ['/-! ### atomman/load/atom_dump/load.py -/', '',
          '/-- the header loop: which branch a line selects, in the order of the code: the pending reads and the three box',
          f'    lines ({n_o} branches), then the `ITEM:` lines by their second term ({n_i} kinds, {n_o + n_i} = another ITEM),',
          f'    {n_o + n_i + 1} = no branch. -/',
          'def dumpBranch (terms : List (List Char)) (readnatoms readtimestep : Bool) (bcount : Nat) : Nat :=']
    for k, c in enumerate(oconds):
        L.append(f'  {"if" if k == 0 else "else if"} {c} then {k}')
    L.append(f'  else if {item_cond} then')
    for k, c in enumerate(iconds):
        L.append(f'    {"if" if k == 0 else "else if"} {c} then {n_o + k}')
    L += [f'    else {n_o + n_i}', f'  else {n_o + n_i + 1}', '',
          '/-- the bodies of the branches, normalised (the box-line branches without the inversion, which is `bboxInvert`). -/']
    # the bounding-box inversion: the assignments to xlo / xhi / ylo / yhi under `if len(terms) == 3` of the third box line
    inv = None
    bodies = []
    for t, b in outer:
        kept = []
        for s in b:
            if isinstance(s, ast.If) and ast.unparse(s.test) == 'len(terms) == 3' and not s.orelse:
                conv = [x for x in s.body if isinstance(x, ast.Assign) and len(x.targets) == 1
                        and isinstance(x.targets[0], ast.Name) and x.targets[0].id in ('xlo', 'xhi', 'ylo', 'yhi')]
                if conv:
                    if inv is not None:
                        raise TranslationError(f'{rel}: bounds are inverted in two places')
                    inv = conv
                    rest = [x for x in s.body if x not in conv]
                    kept.append('if len(terms) == 3: ' + '; '.join(ast.unparse(x) for x in rest))
                    continue
            kept.append(ast.unparse(s))
        bodies.append(kept)
    if inv is None or sorted(x.targets[0].id for x in inv) != ['xhi', 'xlo', 'yhi', 'ylo']:
        raise TranslationError(f'{rel}: the conversion of the bounding box to xlo, xhi, ylo, yhi was not found')
    L.append('def dumpBodies : List (List String) :=\n  [' + ',\n   '.join(
        '[' + ', '.join(_lean_strlit(x) for x in b) + ']' for b in bodies) + ']')
    L.append('def dumpItemBodies : List (List String) :=\n  [' + ',\n   '.join(_pin(b) for _, b in inner) + ']')
    names = ('xlo', 'xhi', 'ylo', 'yhi', 'xy', 'xz', 'yz')
    L += ['', '/-- "Convert from max, min to hi, lo": the statements in the order of the code. -/',
          'def bboxInvert (xlo xhi ylo yhi xy xz yz : Rat) : Rat × Rat × Rat × Rat :=']
    for x in inv:
        L.append(f'  let {x.targets[0].id} := {_arith(x.value, rel, names)}')
    L += ['  (xlo, xhi, ylo, yhi)', '']
    # the pp flags of the BOX line
    box = [b for t, b in inner if "'BOX'" in ast.unparse(t)]
    if len(box) != 1:
        raise TranslationError(f'{rel}: the ITEM: BOX branch was not found')
    loops = [s for s in box[0] if isinstance(s, ast.For)]
    ok = (len(loops) == 1 and ast.unparse(loops[0].iter) == 'range(3)' and ast.unparse(loops[0].target) == 'i'
          and len(loops[0].body) == 1 and isinstance(loops[0].body[0], ast.If) and not loops[0].body[0].orelse
          and ast.unparse(loops[0].body[0].body[0]) == 'pbc[i] = False')
    if ok:
        t = loops[0].body[0].test
        ok = (isinstance(t, ast.Compare) and isinstance(t.ops[0], ast.NotEq) and isinstance(t.left, ast.Subscript)
              and ast.unparse(t.left.value) == 'terms' and isinstance(t.comparators[0], ast.Constant)
              and isinstance(t.comparators[0].value, str))
    if not ok:
        raise TranslationError(f'{rel}: the loop over the three boundary flags has another structure')

    def idx(e):
        if isinstance(e, ast.Name) and e.id == 'i':
            return 'i'
        if _is_len_terms(e):
            return '(terms.length : Int)'
        if isinstance(e, ast.Constant) and type(e.value) is int:
            return f'({e.value} : Int)'
        if isinstance(e, ast.BinOp) and isinstance(e.op, (ast.Add, ast.Sub)):
            return f'({idx(e.left)} {"+" if isinstance(e.op, ast.Add) else "-"} {idx(e.right)})'
        raise TranslationError(f'{rel}: index `{ast.unparse(e)}` of a boundary flag is outside the translated subset')
    L += ['/-- `ITEM: BOX BOUNDS …`: is direction `i` periodic (Python index, negative ones count from the end). -/',
          'def ppFlag (terms : List (List Char)) (i : Int) : Bool :=',
          f'  pyGet terms {idx(t.left.slice)} == some {_lean_chars(t.comparators[0].value)}', '',
          f'def dumpBoxBody : List String :=\n  {_pin([s for s in box[0] if s is not loops[0]])}', '']
    # after the loop: position variants
    body = _body(ld)
    after = body[body.index(w) + 1:]
    fl = [s for s in after if isinstance(s, ast.For) and ast.unparse(s.iter) == 'prop_info']
    if len(fl) != 1:
        raise TranslationError(f'{rel}: the loop over prop_info that renames the position variants was not found')
    lists = [n for n in ast.walk(fl[0]) if isinstance(n, ast.Compare) and isinstance(n.ops[0], ast.In)
             and isinstance(n.comparators[0], (ast.List, ast.Tuple))]
    if len(lists) != 1 or not all(isinstance(x, ast.Constant) and isinstance(x.value, str) for x in lists[0].comparators[0].elts):
        raise TranslationError(f'{rel}: the list of position variants was not found')
    L += ['/-- the property names that are stored as `pos`. -/',
          'def posLike : List String := [' + ', '.join(_lean_strlit(x.value) for x in lists[0].comparators[0].elts) + ']', '',
          '/-- the initial values, the statements after the header loop (box, atoms, system, `process_prop_info`, the loop over',
          '    the position variants, the table read) and `matchprops`, normalised. -/',
          f'def dumpInit : List String :=\n  {_pin([s for s in body[:body.index(w)] if isinstance(s, ast.Assign)])}',
          f'def dumpSplit : List String :=\n  {_pin(pre)}',
          f'def dumpTail : List String :=\n  {_pin(after)}',
          f'def matchprops : List String :=\n  {_pin(_body(_fn(tree, "matchprops", rel)))}', '']


def translate_poscar_source(L):
    rel = 'atomman/load/poscar/load.py'
    tree = ast.parse(cm.source(rel))
    ld = _fn(tree, 'load', rel)
    body = _body(ld)

    def line_no(e, what):
        """lines[k] possibly inside float(...), .split(), np.array(..., dtype=...) -> k"""
        subs = [n for n in ast.walk(e) if isinstance(n, ast.Subscript) and ast.unparse(n.value) == 'lines']
        if len(subs) != 1 or not (isinstance(subs[0].slice, ast.Constant) and type(subs[0].slice.value) is int
                                  and subs[0].slice.value >= 0):
            raise TranslationError(f'{rel}: {what}: expected one `lines[<number>]` in `{ast.unparse(e)}`')
        return subs[0].slice.value

    assigns = {ast.unparse(s.targets[0]): s.value for s in body if isinstance(s, ast.Assign) and len(s.targets) == 1}
    for k in ('box_scale', 'avect', 'bvect', 'cvect'):
        if k not in assigns:
            raise TranslationError(f'{rel}: assignment to {k} not found')
    if ast.unparse(assigns['box_scale']) != f'float(lines[{line_no(assigns["box_scale"], "box_scale")}])':
        raise TranslationError(f'{rel}: box_scale is not float(lines[k])')
    lat = []
    for k in ('avect', 'bvect', 'cvect'):
        n = line_no(assigns[k], k)
        if ast.unparse(assigns[k]) != f"np.array(lines[{n}].split(), dtype='float64') * box_scale":
            raise TranslationError(f'{rel}: {k} is not np.array(lines[k].split(), dtype=float64) * box_scale')
        lat.append(n)
    tries = [s for s in body if isinstance(s, ast.Try) and any('typenums' in ast.unparse(x) for x in s.body)]
    if len(tries) != 1 or len(tries[0].handlers) != 1 or tries[0].handlers[0].type is not None or tries[0].orelse \
            or tries[0].finalbody:
        raise TranslationError(f'{rel}: the try / bare except that decides whether there is a symbols line was not found')

    def layout(stmts, what):
        d = {}
        for s in stmts:
            if not (isinstance(s, ast.Assign) and len(s.targets) == 1 and isinstance(s.targets[0], ast.Name)):
                raise TranslationError(f'{rel}: {what}: `{ast.unparse(s)}` is outside the translated subset')
            d[s.targets[0].id] = s.value
        if sorted(d) != ['elements', 'start_i', 'style', 'typenums']:
            raise TranslationError(f'{rel}: {what}: assigns {sorted(d)}')
        if ast.unparse(d['typenums']) != f"np.array(lines[{line_no(d['typenums'], what)}].split(), dtype='int64')":
            raise TranslationError(f'{rel}: {what}: typenums')
        if ast.unparse(d['style']) != f"lines[{line_no(d['style'], what)}]":
            raise TranslationError(f'{rel}: {what}: style')
        if not (isinstance(d['start_i'], ast.Constant) and type(d['start_i'].value) is int):
            raise TranslationError(f'{rel}: {what}: start_i')
        return d
    d0 = layout(tries[0].body, 'try')
    d1 = layout(tries[0].handlers[0].body, 'except')
    if ast.unparse(d0['elements']) != '[None for n in range(len(typenums))]':
        raise TranslationError(f'{rel}: try: elements')
    if ast.unparse(d1['elements']) != f"lines[{line_no(d1['elements'], 'except')}].split()":
        raise TranslationError(f'{rel}: except: elements')
    order0 = [s.targets[0].id for s in tries[0].body]
    if order0[0] != 'typenums':
        raise TranslationError(f'{rel}: try: the integer conversion of the counts is not the first statement')
    cart = [s for s in body if isinstance(s, ast.If) and isinstance(s.test, ast.Compare) and isinstance(s.test.ops[0], ast.In)
            and ast.unparse(s.test.left) == 'style[0]']
    if len(cart) != 1 or not (isinstance(cart[0].test.comparators[0], ast.Constant)
                              and isinstance(cart[0].test.comparators[0].value, str)
                              and ast.unparse(cart[0].body[0]) == 'scale = False' and len(cart[0].orelse) == 1
                              and ast.unparse(cart[0].orelse[0]) == 'scale = True'):
        raise TranslationError(f'{rel}: the Cartesian / Direct test `style[0] in ...` was not found')
    times = [s for s in body if isinstance(s, ast.If) and ast.unparse(s.test) == 'scale is False']
    if len(times) != 1 or times[0].orelse or [ast.unparse(x) for x in times[0].body] != ['pos *= box_scale']:
        raise TranslationError(f'{rel}: `if scale is False: pos *= box_scale` was not found')
    loops = [s for s in body if isinstance(s, ast.For) and ast.unparse(s.iter) == 'range(natoms)']
    if len(loops) != 1:
        raise TranslationError(f'{rel}: the loop over the coordinate lines was not found')
    sl = [n for n in ast.walk(loops[0]) if isinstance(n, ast.Subscript) and ast.unparse(n.value) == 'terms'
          and isinstance(n.slice, ast.Slice)]
    if len(sl) != 1 or sl[0].slice.lower is not None or sl[0].slice.step is not None \
            or not (isinstance(sl[0].slice.upper, ast.Constant) and type(sl[0].slice.upper.value) is int):
        raise TranslationError(f'{rel}: the coordinate terms `terms[:k]` were not found')
    L += ['/-! ### atomman/load/poscar/load.py -/', '',
          '/-- line numbers: the scale; the three cell vectors; without a symbols line (counts, coordinate style, first',
          '    coordinate line); with one (symbols, counts, coordinate style, first coordinate line). -/',
          f'def poscarScaleLine : Nat := {line_no(assigns["box_scale"], "box_scale")}',
          f'def poscarLatticeLines : List Nat := {lat}',
          f'def poscarNoSymbols : Nat × Nat × Nat := ({line_no(d0["typenums"], "try")}, {line_no(d0["style"], "try")}, {d0["start_i"].value})',
          f'def poscarWithSymbols : Nat × Nat × Nat × Nat := ({line_no(d1["elements"], "except")}, '
          f'{line_no(d1["typenums"], "except")}, {line_no(d1["style"], "except")}, {d1["start_i"].value})',
          f'def poscarCoordTerms : Nat := {sl[0].slice.upper.value}', '',
          '/-- `style[0] in …`: the coordinates are Cartesian (and are then multiplied by the scale). -/',
          'def poscarIsCartesian (style : List Char) : Bool :=',
          f'  match style with | c :: _ => {_lean_chars(cart[0].test.comparators[0].value)}.contains c | [] => false', '',
          '/-- the other statements of the POSCAR reader, normalised. -/',
          f'def poscarAtype : List String :=\n  {_pin([s for s in body if (isinstance(s, ast.Assign) and ast.unparse(s.targets[0]) == "atype") or (isinstance(s, ast.For) and "atype" in ast.unparse(s))])}',
          f'def poscarCoordLoop : List String :=\n  {_pin(loops)}',
          f'def poscarSymbols : List String :=\n  {_pin([s for s in body if isinstance(s, ast.If) and ast.unparse(s.test) == "symbols is None"])}',
          f'def poscarSystem : List String :=\n  {_pin([s for s in body if "System(" in ast.unparse(s) or "Atoms(" in ast.unparse(s) or "Box(" in ast.unparse(s) or "natoms = " in ast.unparse(s)[:9]])}', '']


def translate_table_source(L):
    rel = 'atomman/load/table/load.py'
    tree = ast.parse(cm.source(rel))
    ld = _fn(tree, 'load', rel)
    body = _body(ld)
    srt = [s for s in body if isinstance(s, ast.If) and isinstance(s.test, ast.Compare) and isinstance(s.test.ops[0], ast.In)
           and ast.unparse(s.test.comparators[0]) == 'df']
    if len(srt) != 1 or srt[0].orelse or len(srt[0].body) != 1 or not isinstance(srt[0].test.left, ast.Constant):
        raise TranslationError(f'{rel}: `if \'id\' in df: df = df.sort_values(\'id\')` was not found')
    key = srt[0].test.left.value
    if ast.unparse(srt[0].body[0]) != f'df = df.sort_values({key!r})':
        raise TranslationError(f'{rel}: the table is not sorted by the column that is tested for')
    loops = [s for s in body if isinstance(s, ast.For) and ast.unparse(s.iter) == 'prop_info' and 'view' in ast.unparse(s)]
    if len(loops) != 1:
        raise TranslationError(f'{rel}: the loop over the properties was not found')
    lp = loops[0]
    skip = [s for s in lp.body if isinstance(s, ast.If) and [ast.unparse(x) for x in s.body] == ['continue']]
    if len(skip) != 1 or not (isinstance(skip[0].test, ast.Compare) and ast.unparse(skip[0].test.left) == 'pname'
                              and isinstance(skip[0].test.ops[0], ast.Eq) and isinstance(skip[0].test.comparators[0], ast.Constant)):
        raise TranslationError(f'{rel}: `if pname == \'a_id\': continue` was not found')
    conv = [s for s in lp.body if isinstance(s, ast.If) and ast.unparse(s.test) == "prop['unit'] is not None"]
    ok = (len(conv) == 1 and not conv[0].orelse and len(conv[0].body) == 1 and isinstance(conv[0].body[0], ast.If)
          and isinstance(conv[0].body[0].test, ast.Compare) and ast.unparse(conv[0].body[0].test.left) == "prop['unit']"
          and isinstance(conv[0].body[0].test.ops[0], ast.Eq) and isinstance(conv[0].body[0].test.comparators[0], ast.Constant)
          and [ast.unparse(x) for x in conv[0].body[0].body] == ['value = system.box.position_relative_to_cartesian(value)']
          and [ast.unparse(x) for x in conv[0].body[0].orelse] == ["value = uc.set_in_units(value, prop['unit'])"])
    if not ok:
        raise TranslationError(f'{rel}: the unit / scaled decision has another structure')
    L += ['/-! ### atomman/load/table/load.py -/', '',
          f'def tableSortKey : String := {_lean_strlit(key)}',
          f'def tableSkippedProp : String := {_lean_strlit(skip[0].test.comparators[0].value)}',
          '/-- the conversion of a column group: 0 = none, 1 = box-relative to Cartesian, 2 = `uc.set_in_units`. -/',
          'def tableConv (unit : Option String) : Nat :=',
          f'  match unit with | none => 0 | some u => if u == {_lean_strlit(conv[0].body[0].test.comparators[0].value)} then 1 else 2', '',
          '/-- the statements of the table reader, normalised (pandas call, system, the loop over the properties). -/',
          f'def tableBody : List String :=\n  {_pin(body)}', '']


def translate_source():
    L = ['/- GENERATED by harness/props/c08.py (translate_source) from atomman/load/atom_data/load.py,',
         '   atomman/load/atom_dump/load.py, atomman/load/poscar/load.py, atomman/load/table/load.py — do not edit. -/',
         'namespace Atomman.Gen.LoadSource', '',
         '/-- `terms[k] == w` for `k` inside the list. -/',
         'def termIs (terms : List (List Char)) (k : Nat) (w : List Char) : Bool := terms[k]? == some w', '',
         '/-- `terms[k]` with Python\'s negative indices. -/',
         'def pyGet (terms : List (List Char)) (k : Int) : Option (List Char) :=',
         '  if 0 ≤ k then terms[k.toNat]? else if 0 ≤ k + terms.length then terms[(k + terms.length).toNat]? else none', '',
         '/-- Python `min(tuple)` / `max(tuple)`: from the left, the earlier element stays on ties. -/',
         'def minL : List Rat → Rat',
         '  | [] => 0',
         '  | a :: r => r.foldl (fun a b => if b < a then b else a) a',
         'def maxL : List Rat → Rat',
         '  | [] => 0',
         '  | a :: r => r.foldl (fun a b => if a < b then b else a) a', '']
    translate_data_source(L)
    translate_dump_source(L)
    translate_poscar_source(L)
    translate_table_source(L)
    L.append('end Atomman.Gen.LoadSource\n')
    return '\n'.join(L)


def translate():
    t = extract_load_tables()
    L = ['/- GENERATED by harness/props/c08.py from atomman/load/atom_data/{atoms,velocities}_prop_info.py and',
         '   atomman/load/atom_dump/process_prop_info.py — do not edit. -/',
         'import Atomman.Generated.AtomStyles',
         'namespace Atomman.Gen.LoadStyles', 'open Atomman.Gen.AtomStyles', '']
    for key, name, doc in (('atom', 'atomStyles', 'Atoms section as the LOADER reads it, per atom_style'),
                           ('vel', 'velStyles', 'Velocities section as the LOADER reads it, per atom_style')):
        L.append(f'/-- {doc} (an empty column list = the Python function raises for that style). -/')
        L.append(f'def {name} : List (String × List Col) := [')
        L.append(',\n'.join(f'  ({c07._lean_str(st)}, [{", ".join(c07._lean_col(c) for c in cols)}])' for st, cols in t[key]) + ']')
        L.append('')
    L.append('/-- `standard_conversions` of the dump-file LOADER. -/')
    L.append('def dumpStandard : List Col := [')
    L.append(',\n'.join('  ' + c07._lean_col(c) for c in t['dump']) + ']')
    L.append('')
    L.append('/-- does every loader table (the hybrid composition included) use the unit style it was asked for? -/')
    L.append(f'def forwardsUnits : Bool := {"true" if t["forwards"] else "false"}')
    L.append('')
    L.append('/-- does `standard_conversions` evaluate for the unit-less style `lj`? -/')
    L.append(f'def dumpStandardLjOk : Bool := {"true" if t["dump_lj_ok"] else "false"}')
    L.append('')
    L.append('end Atomman.Gen.LoadStyles\n')
    out = {'LoadStyles': '\n'.join(L), 'LoadSource': translate_source()}
    out.update(c07.translate())          # the writer's tables the C07 model (imported by C08) is built on
    return out


THEOREMS = [
    # the loader reads the columns the writer writes (regenerated tables)
    'C08.loader_tables_match_writer', 'C08.atom_styles_id_first', 'C08.lookupCols_id_first',
    # table_reshape_roundtrip: column <-> shape via indexstr / C-order reshape
    'C08.table_reshape_roundtrip', 'C08.reshape_flatten_roundtrip', 'C08.shape_told_apart',
    # every carried per-atom property with its shape: the table reader keeps the shape of the prop_info entry
    'C08.tableLoad_prop_shape', 'C08.propOfColumn_shape', 'C08.tableLoad_prop_values', 'C08.propOfColumn_vals',
    # load_perm_invariant: any permutation of id-carrying atom lines (table body; Atoms section incl. image flags)
    'C08.load_perm_invariant_table', 'C08.load_perm_invariant', 'C08.load_perm_invariant_data_file', 'C08.sortBy_eq_of_perm',
    # load_comment_blank_invariant: the loaders factor through the lines that have terms
    'C08.loadDataLines_eq_sig', 'C08.load_comment_blank_invariant', 'C08.sig_insert_blank', 'C08.termsC_comment_only',
    'C08.sigOf_trailing_comment', 'C08.loadDumpLines_eq_rows', 'C08.load_blank_invariant_dump',
    # missing_section_rejected, stated outright
    'C08.missing_section_rejected',
    # load_dump_roundtrip per format, composed with the C07 writer model
    'C08.load_dump_roundtrip_poscar', 'C08.load_dump_roundtrip_dump_partial', 'C08.load_dump_roundtrip_data_partial',
    'C08.load_dump_roundtrip_table_partial', 'C08.load_dump_roundtrip_table_values', 'C08.table_values_of_rows',
    'C08.fixed_formats_readable', 'C08.all_formats_readable',
    'C08.lexLine_joinSp', 'C08.splitLines_renderLines', 'C08.readTable_rowsDoc', 'C08.tableLoad_rowsDoc',
    'C08.tableLoad_rowsDoc_sorted',
    # load_eq_independent_parse (dump-file bounds) and the printed precision with unit conversions undone
    'C08.dump_bounds_eq_independent', 'C08.load_eq_independent_parse_poscar', 'C08.unit_roundtrip_error',
    # text given as string, path or open stream: every way of naming the target of the dump and the source of the load
    'C08.dump_target_holds_content', 'C08.load_dump_roundtrip_any_route', 'C08.dump_twice_last_wins',
    'C08.dump_returns_iff_no_target', 'C08.source_refusals', 'C08.sourceTextRead_eq', 'C08.sourceTextRead_textFile',
    'C08.load_dump_roundtrip_poscar_any_route',
    # end to end (Proofs/C08_Compose.lean): header theorems joined with the table reader in closed form, any id order
    'C08.load_dump_roundtrip_dump_values', 'C08.table_values_of_rows_sorted', 'C08.loadDumpCore_given',
    'C08.tableLoad_frame', 'C08.load_dump_roundtrip_data_values', 'C08.atoms_section_values', 'C08.applyFlags_other',
    'C08.loadDataCore_values', 'C08.tableLoad_other', 'C08.dataParts_rows_length',
    # source tie (Proofs/C08_Source.lean): definitions regenerated from the reader code = the model, for all inputs
    'C08.gen_firstpassBranch_eq_model', 'C08.fpStepT_eq_act', 'C08.fpStepT_eq_gen', 'C08.gen_firstpassCheck_eq_model',
    'C08.gen_chooseStyle_eq_model', 'C08.readAtoms_eq_gen', 'C08.gen_dumpBranch_eq_model', 'C08.gen_bboxInvert_eq_model',
    'C08.gen_ppFlag_eq_model', 'C08.dsCore_eq_gen', 'C08.gen_posLike_eq_model', 'C08.gen_poscarIsCartesian_eq_model',
    'C08.gen_poscarLayout_eq_model', 'C08.gen_tableKeys_eq_model', 'C08.idIndex_eq_gen',
    # ... and normalised-statement pins for what is not a Lean definition
    'C08.gen_firstpassSplit_pinned', 'C08.gen_firstpassBodies_pinned', 'C08.gen_firstpassTail_pinned',
    'C08.gen_firstpassInit_pinned', 'C08.gen_dataLoadCalls_pinned', 'C08.gen_readAtomsTable_pinned',
    'C08.gen_readAtomsFlags_pinned', 'C08.gen_readMass_pinned', 'C08.gen_removeComments_pinned',
    'C08.gen_countReadColumns_pinned', 'C08.gen_readVelocities_pinned', 'C08.gen_dumpBodies_pinned',
    'C08.gen_dumpItemBodies_pinned', 'C08.gen_dumpBoxBody_pinned', 'C08.gen_dumpInit_pinned', 'C08.gen_dumpSplit_pinned',
    'C08.gen_dumpTail_pinned', 'C08.gen_matchprops_pinned', 'C08.gen_poscarAtype_pinned', 'C08.gen_poscarCoordLoop_pinned',
    'C08.gen_poscarSymbols_pinned', 'C08.gen_poscarSystem_pinned', 'C08.gen_tableBody_pinned',
]
PARTIAL = {
    'load_dump_roundtrip (data, dump, table)': 'one end-to-end statement per format since round 6 (POSCAR closed form; '
        'load_dump_roundtrip_table_values; load_dump_roundtrip_dump_values for any id order with a caller-supplied column '
        'table; load_dump_roundtrip_data_values: first pass + atom_style decision + read_atoms with or without image flags + '
        'Velocities pass). Missing: scaled (box-relative) columns are not expanded - the closed forms speak of columns '
        'without conversion or with a unit factor; for data files the positions are the printed values plus applyFlags, the '
        'shift is not expanded against C07.wrap (applyFlags_other: it touches pos only); the hypotheses "one row width" and '
        '"distinct printed ids" are not discharged from C07.tableRows (the atom count is: dataParts_rows_length); the '
        'matchprops route of the dump loader (no column table given) is correspondence + statement pin. '
        'unit_roundtrip_error bounds one converted value.',
    'load_eq_independent_parse': 'proved for POSCAR as one equation (load_eq_independent_parse_poscar: the loader returns '
        'the system C07.parsePoscar describes, on every writer output) and for the dump-file bounds '
        '(dump_bounds_eq_independent: the loader inversion is C07.hiLoOfBBox); for data files, dump tables and tables the '
        'comparison with C07.parseData / parseDump is run on every case by the C07 correspondence, not stated as a theorem.',
    'load_perm_invariant (file level)': 'text-to-system for data files laid out like the writer\'s '
        '(load_perm_invariant_data_file); for dump files, tables and arbitrary extra lines between the rows the statement '
        'is on the rows (load_perm_invariant_table) plus the factorisation through the lines that have terms.',
    'source tie': 'decision chains, checks, style / column-count decisions, bounding-box inversion, flag index, position '
        'variants, Cartesian test, POSCAR line numbers, table keys are regenerated and proved equal to the model for all '
        'inputs (Proofs/C08_Source.lean); the bodies of the branches, the pandas calls, matchprops, read_mass, the table '
        'reader body are normalised-statement pins (gen_..._pinned), i.e. tied by correspondence + pin, not by a Lean '
        'definition.',
}
RULE = ('every C07 writer case (systems of 1-10 atoms, orthogonal/triclinic cells, all pbc settings, atoms inside/outside/on faces; '
        '"grid" = dyadic and "generic" doubles; all 18 atom styles + hybrids x 8 unit styles; %.Nf / %.Ne formats; dump files '
        'with scaled/unwrapped position columns, own atom ids and (3,3) properties; tables and dump files with further '
        'per-atom properties of every shape in {(), (1,), (2,), (3,), (1,1), (1,3), (3,1), (3,3), (2,2,2), (1,1,1)} x dtype '
        '{float64, int64, bool, float32, uint8, int32, integers > 2^53}, custom column names, unit and box-relative columns '
        '(one pinned case per shape x dtype class and format besides the random ones); the symbols= argument of the dump / '
        'POSCAR loaders; POSCAR direct/Cartesian x scale != 1, '
        'symbols present/absent, atom types with gaps; tables with unit/scaled columns) is written by the real writer, the '
        'text is then transformed (atom lines shuffled, comment-only / blank / whitespace-only lines injected anywhere, '
        'trailing comments, tabs and repeated blanks, a title line, a Masses section, Velocities before Atoms, the '
        'atom_style comment removed) and '
        'loaded by the real loader from a string, a path, a pathlib.Path, an open binary file, a BytesIO or bytes, and by the '
        'Lean model from the same bytes; malformed variants lack the atoms count, a bounds line or the Atoms section. '
        'Every case runs under one of: atomman default working units, six named configurations (SI, nm-, pm-, cm-based, '
        'g/ns/C, J/C) or a numericalunits seed, switched with uc.reset_units from case to case (pinned sequences return to '
        'earlier configurations), expected values from an independent evaluation of the LAMMPS units page; the dump goes '
        'through every way of naming the target (str, pathlib.Path, os.PathLike, text file, StringIO, binary file; new / '
        'holding an earlier bigger dump that was loaded first / holding other text) and scripts of dumps and loads over '
        'shared file names run on the real file system and on the model World; POSCAR scales 2^+-500, int / numpy scalars, '
        'non-positive (refused) and hand-negated; geometry x 2^k (|k| <= 330); atoms a hair off faces; flat cells; property '
        'names from a pool of substrings / extensions of reserved names; aliasing (arguments, dumped system, fresh '
        'results), argument forms, CR LF / non-ASCII variants, a second dump of the system edited in place. '
        'Round 3: column layouts of dump files / tables in which the id is not the leading column (id later, id last, '
        'everything shuffled: dump custom type id x y z) crossed with shuffled / reversed atom lines, with two INTERIOR '
        'lines exchanged (swapmid: sorted at both ends) and with a system whose own ids are out of order, pinned for four '
        'layouts per format; every hybrid of two sub-styles that share a unit-bearing column (charge, density, mass, '
        'volume, eradius: 23 hybrids) under every LAMMPS unit style; systems of 1025, 2049, 4097, 10001 atoms (thorough: '
        'up to 65537) through every loader with the atom lines out of order; return_prop_info=1 / numpy.True_. '
        'distinct = distinct (request line of the model); non-trivial = the real writer produced a file')
ASSUMPTIONS = [
    'pandas.read_csv(sep=r"\\s+", skiprows=k, nrows=n, comment=c, header=None) = drop k physical lines, cut each line at c, '
    'split on whitespace, skip lines without tokens, keep the first n rows (checked against pandas on every case; holds '
    'for texts without double quotes and carriage returns: a `"` in a comment makes pandas join physical lines)',
    'pandas types a column of True/true/TRUE / False/false/FALSE tokens as bool, of integer tokens as int64, of number '
    'tokens as float64 (a column mixing boolean and numeric tokens becomes an object array: outside the model)',
    'pandas parses a decimal token to the nearest double within 2 ulp; int() / float() of Python accept exactly the '
    'tokens of C07.parseInt? / parseNum? on the generated texts (no underscores, no inf/nan, no hex)',
    'DataFrame.sort_values("id") orders rows by id (ties: unspecified; atom ids are distinct in every generated file)',
    'IEEE double rounding in the loaders (unit factor, relative->Cartesian, image-flag shift) is bounded by 256 eps '
    '(|value| + system size)',
    'Box.vects zeroes entries below 1e-9 of the largest one (no generated cell has such entries)',
    'unit values (angstrom, ps, g/mol, ...) come from atomman.unitconvert (property C09); the writer side is C07',
]
TRUSTED = ['numpy/pandas inside the real loaders', 'the text transformations and the loaded-vs-original oracle in '
           'harness/props/c08.py (the oracle never looks at the model)', 'C07 case generators and writer wrappers',
           'numericalunits (values of the base units under a configuration) and the hand-encoded LAMMPS units page '
           '(c07.ORACLE_UNITS) for the expected numbers under non-default working units',
           'the operating system file layer under the route scripts (open / truncate / read of named files)',
           'translate_source in harness/props/c08.py (ast walk of the four reader sources into Generated/LoadSource.lean; a '
           'mis-translation goes unnoticed only if it agrees with the hand model in every gen_..._eq_model) and '
           'ast.unparse as the normal form of the statement pins']
MANIFEST = {
    'text': 'Lean model of the four loaders as coded (data-file first pass with term patterns, comment stripping, section '
            'offsets, atom_style comment, Masses, image flags re-applied as lattice shifts in id order; dump-file header '
            'state machine with bounding-box inversion and pp flags, matchprops/process_prop_info over the regenerated '
            'loader tables; table reader: whitespace split, sort by id, reshape, unit/scaled conversion; POSCAR reader) on '
            'top of the C07 text layer and writers. Theorems: see THEOREMS. Tie: loader tables regenerated from the loader '
            'sources and proved equal to the writer tables; load(dump(system)) on the real code vs the model on the same '
            'bytes for string/path/stream input, shuffled lines, injected comments, all styles; malformed files must raise '
            'FileFormatError. Routes: Sink / Source / World model of the last step of the writers and of uber_open_rmode '
            '(theorems dump_target_holds_content, load_dump_roundtrip_any_route, ...), tied by scripts of dumps and loads '
            'on the real file system. Working units: every case under default / named / random configurations switched '
            'within the process, unit values handed to the model at call time. Search: loaded system compared directly '
            'with the original to the printed precision (independent unit oracle), load(transformed text) == load(text) '
            'bit for bit, target content == returned string for every way of naming the target (new / existing), aliasing, '
            'argument forms, re-dump after in-place edits.',
    'note': 'Trusted: Lean kernel + propext/Classical.choice/Quot.sound; the table extractor; pandas read_csv as the row '
            'selection assumption (re-checked against pandas on every case); the correspondence harness.',
    'technique': 'Lean 4 theorems over a hand-written model + translator-generated tables and reader decision chains (Generated/LoadStyles.lean, Generated/LoadSource.lean, proved equal to the model) + differential correspondence',
}

EPS = Fraction(1, 2 ** 52)
F = c07.F


def _np():
    import numpy as np
    return np


# ----------------------------------------------------------------------------------------
# wire encoding
# ----------------------------------------------------------------------------------------

def enc_symbols(sy):
    if sy is None:
        return '-'
    return f'{len(sy)}' + ''.join(' ' + ('~' if x is None else x) for x in sy)


_fac_cache = {}


def unit_factor_of(unit):
    """exact value (Fraction) of one `unit` in working units, as the loader computes it."""
    import atomman.unitconvert as uc
    key = (c07._wu_state['key'], unit)          # the value of a unit depends on the working units in force
    if key not in _fac_cache:
        _fac_cache[key] = Fraction(float(uc.set_in_units(1.0, unit)))
    return _fac_cache[key]


def enc_pcol(p):
    names = p['table_name']
    names = [names] if isinstance(names, str) else list(names)
    shape = tuple(p['shape']) if not isinstance(p['shape'], int) else (p['shape'],)
    u = p.get('unit')
    if u is None:
        us = 'none'
    elif u == 'scaled':
        us = 'scaled'
    else:
        us = 'f:' + cm.fr(unit_factor_of(u))
    return (f"{p['prop_name']} {len(names)} {' '.join(names)} {len(shape)}" + ''.join(f' {x}' for x in shape) + f' {us}')


def enc_box(vects, origin):
    np = _np()
    return ' '.join(cm.fr(v) for v in list(np.asarray(vects, dtype=float).ravel()) + list(np.asarray(origin, dtype=float)))


def decode_loaded(o):
    p = o.split()
    if p[0] != 'ok':
        return None
    it = iter(p[1:])
    out = {'natoms': int(next(it)), 'natypes': int(next(it))}
    out['vects'] = [[Fraction(next(it)) for _ in range(3)] for _ in range(3)]
    out['origin'] = [Fraction(next(it)) for _ in range(3)]
    out['pbc'] = [next(it) == '1' for _ in range(3)]
    ns = int(next(it))
    out['symbols'] = [None if (t := next(it)) == '~' else t for _ in range(ns)]
    nm = int(next(it))
    out['masses'] = [None if (t := next(it)) == '~' else Fraction(t) for _ in range(nm)]
    npr = int(next(it))
    props = {}
    order = []
    for _ in range(npr):
        name = next(it)
        cls = {'0': 'f', '1': 'i', '2': 'b'}[next(it)]
        nd = int(next(it))
        shape = tuple(int(next(it)) for _ in range(nd))
        nrows = int(next(it))
        nc = int(next(it))
        vals = [[Fraction(next(it)) for _ in range(nc)] for _ in range(nrows)]
        props[name] = (cls, shape, vals)
        order.append(name)
    out['props'] = props
    out['order'] = order
    rest = list(it)
    if rest:
        raise cm.InfraError(f'undecoded model output: {rest[:5]}')
    return out


class AbsurdSystem(Exception):
    pass


def real_sysdict(s):
    np = _np()
    at = np.asarray(s.atoms.atype)
    if at.size and (int(at.max()) > 10 ** 6 or int(at.min()) < -10 ** 6):
        # System.natypes would try to build a list of that length
        raise AbsurdSystem(f'loaded atom types {at.tolist()[:8]}')
    props = {}
    order = []
    for name in s.atoms_prop():
        a = np.asarray(s.atoms.view[name])
        props[name] = a
        order.append(name)
    return {'natoms': int(s.natoms), 'natypes': int(s.natypes), 'vects': np.asarray(s.box.vects, dtype=float),
            'origin': np.asarray(s.box.origin, dtype=float), 'pbc': [bool(b) for b in s.pbc], 'symbols': list(s.symbols),
            'masses': list(s.masses), 'props': props, 'order': order}


def err_class(e):
    from atomman.load import FileFormatError
    if isinstance(e, FileFormatError):
        return 'err:format'
    if isinstance(e, FileNotFoundError):
        return 'err:notfound'
    if isinstance(e, AssertionError):
        return 'err:assert'
    if isinstance(e, NameError):
        return 'err:name'
    if isinstance(e, TypeError):
        return 'err:type'
    if isinstance(e, (KeyError, ValueError, IndexError)):
        return 'err:value'
    return 'err:' + type(e).__name__


def dtype_class(a):
    """'b' bool, 'i' integer, 'f' float, 'o' anything else (object / string arrays)."""
    k = a.dtype.kind
    return 'b' if k == 'b' else 'i' if k in 'iu' else 'f' if k == 'f' else 'o'


def FX(x):
    """exact value of a numpy scalar (integers beyond 2**53 included)."""
    np = _np()
    if isinstance(x, (np.integer, np.bool_)):
        return Fraction(int(x))
    return F(x)


HUGE = Fraction(2) ** 2000


def FN(x):
    """exact value of a float; inf / nan (never the value of anything that was dumped) -> +-2^2000."""
    x = float(x)
    if math.isfinite(x):
        return Fraction(x)
    return -HUGE if x < 0 else HUGE


def compare_loaded(m, r, M):
    """model (exact) vs real (floats): list of differences. M = magnitude for the float error bound."""
    out = []
    if m['natoms'] != r['natoms']:
        out.append(f"natoms {m['natoms']} vs {r['natoms']}")
    if m['natypes'] != r['natypes']:
        out.append(f"natypes {m['natypes']} vs {r['natypes']}")
    if m['pbc'] != r['pbc']:
        out.append(f"pbc {m['pbc']} vs {r['pbc']}")
    if m['symbols'] != r['symbols']:
        out.append(f"symbols {m['symbols']} vs {r['symbols']}")
    if len(m['masses']) != len(r['masses']) or any((a is None) != (b is None) or (a is not None and abs(FN(b) - a) > 4 * EPS * abs(a))
                                                   for a, b in zip(m['masses'], r['masses'])):
        out.append(f"masses {m['masses']} vs {r['masses']}")

    def tol(v):
        return 256 * EPS * (Fraction(M) + abs(v))
    for i in range(3):
        for j in range(3):
            if abs(FN(r['vects'][i][j]) - m['vects'][i][j]) > tol(m['vects'][i][j]):
                out.append(f"vects[{i}][{j}] {float(m['vects'][i][j])!r} vs {float(r['vects'][i][j])!r}")
        if abs(FN(r['origin'][i]) - m['origin'][i]) > tol(m['origin'][i]):
            out.append(f"origin[{i}] {float(m['origin'][i])!r} vs {float(r['origin'][i])!r}")
    if m['order'] != r['order']:
        out.append(f"properties {m['order']} vs {r['order']}")
        return out
    for name in m['order']:
        cls, shape, vals = m['props'][name]
        is_int = cls in 'ib'
        a = r['props'][name]
        if tuple(a.shape[1:]) != tuple(shape):
            out.append(f'{name}: shape {tuple(shape)} vs {tuple(a.shape[1:])}')
            continue
        if a.shape[0] != len(vals):
            out.append(f'{name}: {len(vals)} rows vs {a.shape[0]}')
            continue
        if name != 'pos' and cls != dtype_class(a):
            out.append(f'{name}: dtype class {cls!r} vs {a.dtype} ({dtype_class(a)!r})')
        if dtype_class(a) == 'o':
            continue
        flat = a.reshape(a.shape[0], -1)
        for k, row in enumerate(vals):
            for c, v in enumerate(row):
                if not math.isfinite(float(flat[k][c])):
                    out.append(f'{name}[{k}][{c}]: {float(v)!r} vs {flat[k][c]!r}')
                    continue
                g = FX(flat[k][c])
                if (is_int and g != v) or abs(g - v) > tol(v):
                    out.append(f'{name}[{k}][{c}]: {float(v)!r} vs {float(g)!r}')
                    if len(out) > 6:
                        return out
    return out


# ----------------------------------------------------------------------------------------
# writer cases: a frozen copy of the C07 case generators this property was developed against (C07's own generators
# keep evolving with C07; the C08 case stream must not change with them).  Constant tables (style lists, layouts,
# unit oracle) and the translator helpers are still shared with harness/props/c07.py.
# ----------------------------------------------------------------------------------------
# ---- per-atom properties of every shape and dtype class ("shape zoo")
ZOO_SHAPES = [(), (1,), (2,), (3,), (1, 1), (1, 3), (3, 1), (3, 3), (2, 2, 2), (1, 1, 1)]
ZOO_DTYPES = ['float', 'int', 'bool', 'float32', 'uint8', 'int32', 'bigint']
NP_DTYPES = {'float': 'float64', 'int': 'int64', 'bool': 'bool', 'float32': 'float32', 'uint8': 'uint8', 'int32': 'int32',
             'bigint': 'int64'}
DT_CLASS = {'float': 'f', 'float32': 'f', 'int': 'i', 'uint8': 'i', 'int32': 'i', 'bigint': 'i', 'bool': 'b'}


def shape_prod(shape):
    k = 1
    for x in shape:
        k *= x
    return k


def index_names(name, shape):
    """`name[i][j]...` over the index tuples in C order (what atomman.tools.indexstr yields)."""
    out = [name]
    for dim in shape:
        out = [f'{o}[{i}]' for o in out for i in range(dim)]
    return out


def zoo_value(rng, regime, dt):
    if dt == 'bool':
        return rng.randint(0, 1)
    if dt == 'uint8':
        return rng.randint(0, 255)
    if dt == 'int32':
        return rng.randint(-2 ** 31, 2 ** 31 - 1) if rng.random() < 0.3 else rng.randint(-9, 9)
    if dt == 'bigint':
        return rng.choice([2 ** 53 + 1, -(2 ** 53) - 3, 2 ** 62 + 5, -(2 ** 62) - 7, 10 ** 15 + 1]) + rng.randint(0, 9)
    if dt == 'int':
        return rng.randint(-3, 9)
    v = gen_value(rng, regime, False)
    if dt == 'float32':
        v = float(_np().float32(v))
    return v


# names of further per-atom properties: short ones, substrings / extensions of the reserved column names (id, type,
# x, q, mass, mol, vx, fx, ...), of atomman's own property names (atype, pos, atom_id, a_id) and of the parameters of the
# writers / loaders.  Exact reserved names are not in the pool: a property called `x` IS the x column of a dump file.
NAME_POOL = ['i', 'd', 'ty', 'typ', 'types', 'idx', 'id2', 'ID', 'Id', 'x2', 'xx', 'xs2', 'xyz', 'q2', 'qq', 'v', 'vxx', 'f',
             'fxx', 'fx2', 'm', 'mas', 'masses', 'mo', 'mol2', 'p', 'po', 'pos2', 'spos2', 'upos_', 'atype2', 'atyp', 'atom',
             'atom_i', 'atom_id2', 'a', 'a_i', 'a_id2', 'box', 'symbols', 'pbc', 'unit', 'units', 'shape', 'dtype', 'scale',
             'scaled', 'key', 'value', 'index', 'header', 'c_pe', 'v_x', 'f_1', 'mux2', 'tq', 'omega', 'radius2', 'X', 'Type',
             'Q', 'none', 'nan', 'inf', 'True', 'e', 'E', 'e5', 'item', 'ITEM', 'Atoms', 'atoms', 'xlo', 'xy', 'pp', 'charge2',
             'velocity2', 'stress2', '_', '__', 'zz', 'x_', '_x']


def add_zoo_prop(rng, d, shape, dt):
    """adds one more property of that per-atom shape and dtype to the description (named `z<k>` or from NAME_POOL);
    returns its name."""
    name = f"z{len(d.get('dtypes') or {})}"
    if rng.random() < 0.4:
        cand = rng.choice(NAME_POOL)
        if cand not in d['props']:
            name = cand
    n = len(d['atype'])
    nc = shape_prod(shape)
    d['props'][name] = (DT_CLASS[dt] != 'f', tuple(shape), [[zoo_value(rng, d['regime'], dt) for _ in range(nc)] for _ in range(n)])
    d.setdefault('dtypes', {})[name] = dt
    return name


def pick_zoo(rng):
    shape = rng.choice(ZOO_SHAPES)
    dt = rng.choice(ZOO_DTYPES[:3]) if rng.random() < 0.7 else rng.choice(ZOO_DTYPES[3:])
    return shape, dt


def table_col_for(rng, d, name, allow_units=True, force_us=None):
    """(property, unit spec, table names) of a zoo property in a generic table."""
    _is_int, shape, _arr = d['props'][name]
    dt = d['dtypes'][name]
    us = 'none'
    if force_us is not None:
        us = force_us
    elif allow_units and dt == 'float' and shape and shape[-1] == 3 and rng.random() < 0.4:
        us = 'scaled'           # box-relative values: any array whose last axis has length 3
    elif allow_units and dt in ('float', 'int') and rng.random() < 0.35:
        us = rng.choice(['length', 'force', 'velocity', 'charge'])
    names = index_names(name, shape)
    if rng.random() < 0.3:
        names = [f'c{name}_{j}' for j in range(len(names))] if len(names) > 1 or rng.random() < 0.5 else [f'c{name}']
    return (name, us, names)


def build_system(d):
    import atomman as am
    np = c07._np()
    props = {}
    dts = d.get('dtypes') or {}
    for name, (is_int, shape, arr) in d['props'].items():
        dt = NP_DTYPES.get(dts.get(name), 'int64' if is_int else 'float64')
        props[name] = np.array(arr, dtype=dt).reshape((len(d['atype']),) + tuple(shape))
    # the form the positions / types are handed over in: float64 array (default), float32, integer-typed, Fortran
    # order, nested lists, int32 types
    pf = d.get('posform')
    pos = np.array(d['pos'], dtype=float)
    atype = np.array(d['atype'], dtype=int)
    if pf == 'f32':
        pos = pos.astype(np.float32)
    elif pf == 'int':
        pos = pos.astype(np.int64)
    elif pf == 'fortran':
        pos = np.asfortranarray(pos)
        atype = atype.astype(np.int32)
    elif pf == 'list':
        pos = pos.tolist()
        atype = atype.tolist()
    atoms = am.Atoms(atype=atype, pos=pos, **props)
    box = am.Box(vects=np.array(d['vects'], dtype=float), origin=np.array(d['origin'], dtype=float))
    kw = {}
    if d.get('symbols') is not None:
        kw['symbols'] = d['symbols']
    s = am.System(atoms=atoms, box=box, pbc=list(d['pbc']), **kw)
    if not (np.array_equal(s.box.vects, np.array(d['vects'], dtype=float))
            and np.array_equal(s.atoms.pos, np.array(d['pos'], dtype=float))):
        raise cm.InfraError('System constructor changed the inputs')
    return s


def gen_box(rng, regime, lammps=True):
    """(vects, origin) as python floats. grid: power-of-two lengths, dyadic tilts |tilt| < length."""
    if regime == 'grid':
        lx, ly, lz = (float(rng.choice([1, 2, 4, 8, 16])) for _ in range(3))
        kind = rng.random()
        if kind < 0.35:
            xy = xz = yz = 0.0
        else:
            xy = rng.choice([0, 0, 1, -1, 2, -2, 3, -3]) * lx / 8
            xz = rng.choice([0, 0, 1, -1, 2, -3, 4, -4]) * lx / 8
            yz = rng.choice([0, 0, 1, -1, 2, -2, 3, 4]) * ly / 8
        origin = [rng.randint(-64, 64) / 8 if rng.random() < 0.7 else 0.0 for _ in range(3)]
    else:
        lx, ly, lz = (rng.uniform(1.5, 25.0) for _ in range(3))
        if rng.random() < 0.1:
            # a flat or needle-like cell: one edge a hundred times shorter / longer than the others
            k = rng.randrange(3)
            f = rng.choice([0.01, 100.0])
            lx, ly, lz = (lx * f if k == 0 else lx), (ly * f if k == 1 else ly), (lz * f if k == 2 else lz)
        kind = rng.random()
        if kind < 0.3:
            xy = xz = yz = 0.0
        elif kind < 0.8:
            xy, xz, yz = rng.uniform(-0.5, 0.5) * lx, rng.uniform(-0.5, 0.5) * lx, rng.uniform(-0.5, 0.5) * ly
        elif kind < 0.9:
            xy, xz, yz = 0.0, 0.0, rng.uniform(-0.5, 0.5) * ly      # only yz tilted
        else:
            xy, xz, yz = rng.uniform(-1.4, 1.4) * lx, rng.uniform(-1.4, 1.4) * lx, rng.uniform(-1.4, 1.4) * ly
        origin = [rng.uniform(-30, 30) if rng.random() < 0.7 else 0.0 for _ in range(3)]
    vects = [[lx, 0.0, 0.0], [xy, ly, 0.0], [xz, yz, lz]]
    if not lammps:
        # a rotated / permuted cell (not LAMMPS-normal)
        p = rng.choice([[1, 2, 0], [2, 0, 1], [0, 2, 1], [1, 0, 2]])
        vects = [[vects[i][p[j]] for j in range(3)] for i in range(3)]
        if rng.random() < 0.5:
            vects[0] = [-v for v in vects[0]]
    return vects, origin


def gen_positions(rng, regime, vects, origin, n):
    """positions inside, outside and exactly on faces (grid: exact dyadic relative coordinates)."""
    V = [[Fraction(v) for v in r] for r in vects]
    O = [Fraction(v) for v in origin]
    pos = []
    mode = rng.choice(['inside', 'mixed', 'mixed', 'faces', 'far', 'hair'])
    for _ in range(n):
        if mode == 'hair':
            # a hair (1e-7 .. 1e-4 of the cell, either side) off a face, edge or corner
            s = [rng.choice([0, 1, 0, 1, -1, 2]) + rng.choice([-1, 1]) * 10.0 ** rng.uniform(-7, -4) if rng.random() < 0.7
                 else rng.uniform(0.05, 0.95) for _i in range(3)]
            pos.append([sum(s[i] * vects[i][j] for i in range(3)) + origin[j] for j in range(3)])
            continue
        if regime == 'grid':
            s = []
            for _i in range(3):
                m = mode if mode != 'mixed' else rng.choice(['inside', 'faces', 'far', 'inside'])
                if m == 'inside':
                    s.append(Fraction(rng.randint(1, 15), 16))
                elif m == 'faces':
                    s.append(Fraction(rng.choice([0, 1, 0, 1, -1, 2])))
                else:
                    s.append(Fraction(rng.randint(-48, 64), 16))
            p = [float(sum(s[i] * V[i][j] for i in range(3)) + O[j]) for j in range(3)]
        else:
            rngs = {'inside': (0.02, 0.98), 'mixed': (-1.5, 2.5), 'faces': (-0.3, 1.3), 'far': (-4.0, 5.0)}[mode]
            s = [rng.uniform(*rngs) for _i in range(3)]
            p = [sum(s[i] * vects[i][j] for i in range(3)) + origin[j] for j in range(3)]
        pos.append(p)
    return pos


def gen_value(rng, regime, is_int, scale=8.0):
    if is_int:
        return rng.randint(-3, 9)
    if regime == 'grid':
        return rng.randint(-int(scale * 16), int(scale * 16)) / 16
    r = rng.random()
    if r < 0.1:
        return 0.0
    if r < 0.2:
        return rng.uniform(-1, 1) * 10 ** rng.randint(-6, 4)
    return rng.uniform(-scale, scale)


def gen_desc(rng, regime, props=(), lammps=True, nmax=10):
    n = rng.randint(1, nmax)
    vects, origin = gen_box(rng, regime, lammps)
    ntyp = rng.randint(1, 3)
    atype = [rng.randint(1, ntyp) for _ in range(n)]
    if rng.random() < 0.15:
        atype = [t + 1 for t in atype]            # type 1 absent
    natypes = max(atype)
    d = {'pbc': [rng.random() < 0.6 for _ in range(3)], 'vects': vects, 'origin': origin, 'atype': atype,
         'natypes': natypes, 'pos': gen_positions(rng, regime, vects, origin, n), 'props': {}, 'symbols': None,
         'regime': regime}
    r = rng.random()
    if r < 0.3:
        d['pbc'] = [True, True, True]
    elif r < 0.4:
        d['pbc'] = [False, False, False]
    for name, is_int, nc in props:
        shape = () if nc == 1 else (nc,)
        d['props'][name] = (bool(is_int), shape, [[gen_value(rng, regime, is_int) for _ in range(nc)] for _ in range(n)])
    return d


def pick_format(rng, units):
    """fixed-point formats cannot resolve Angstrom-sized numbers written in metres / centimetres: use %e there."""
    if units in ('si', 'cgs'):
        return rng.choice(['e13', 'e8', 'e5', 'e16'])
    return rng.choice(FORMATS_F)


FORMATS_F = ['f13', 'f13', 'f13', 'f5', 'f8', 'f3', 'f16', 'f1', 'e13', 'e8', 'e5']


def gen_data_case(rng, i):
    regime = 'grid' if i % 2 == 0 else 'generic'
    r = rng.random()
    if r < 0.45:
        style = 'atomic'
    elif r < 0.85:
        style = rng.choice(c07.ALL_STYLES)
    else:
        style = rng.choice(c07.HYBRIDS)
        # two times out of three a hybrid whose sub-styles define the SAME unit-bearing column (charge in charge / dipole /
        # full / electron, density in sphere / ellipsoid / peri / line / tri, mass, volume, eradius): written once, converted
        # once.  (A generator of its own, so that the main stream of random choices stays what it was.)
        rx = random.Random('c08-hybrid %d %r' % (i, style))
        if rx.random() < 0.67:
            style = c07.gen_hybrid(rx) if rx.random() < 0.5 else rx.choice(c07.SHARED_HYBRIDS)
    units = 'metal' if rng.random() < 0.5 else rng.choice(c07.UNIT_STYLES)
    with_vel = rng.random() < 0.4
    lammps = rng.random() > 0.04
    d = gen_desc(rng, regime, c07.needed_props(style, with_vel), lammps=lammps)
    ff = pick_format(rng, units)
    natypes = None
    if rng.random() < 0.2:
        natypes = d['natypes'] + rng.randint(1, 2)
    fname = 'atom.dat' if rng.random() < 0.08 else None
    if rng.random() < 0.08 and c07.STYLE_PROPS.get(style.split()[0]):
        # drop a required property: both sides must refuse
        drop = c07.needed_props(style, False)[0][0]
        d['props'].pop(drop, None)
    return {'kind': 'data', 'd': d, 'style': style, 'units': units, 'ff': ff, 'natypes': natypes, 'fname': fname}


DUMP_EXTRA = [('velocity', 0, 3), ('force', 0, 3), ('charge', 0, 1), ('mass', 0, 1), ('m_id', 1, 1), ('radius', 0, 1),
              ('mu', 0, 3), ('ang_velocity', 0, 3), ('ang_momentum', 0, 3), ('torque', 0, 3), ('diameter', 0, 1),
              ('stress', 0, 9), ('myint', 1, 1), ('myvec', 0, 3), ('mu_mag', 0, 1)]


def permute_columns(cols, idname, p=0.6):
    """the column layout of a dump file / table: the id column is not always the leading one (LAMMPS `dump custom type id
    x y z`, `dump custom x y z id type`) and the other columns come in any order.  The choice derives from the layout
    itself (a generator of its own: the main stream of random choices, and with it every case of the earlier rounds,
    stays what it was).  Layouts: as given / id moved to a later position / id last / everything shuffled."""
    rx = random.Random('c08-columns %r' % (cols,))
    cols = list(cols)
    ids = [k for k, c in enumerate(cols) if (c if isinstance(c, str) else c[0]) == idname]
    if rx.random() >= p or len(cols) < 2:
        return cols
    r = rx.random()
    if r < 0.45 or not ids:
        rx.shuffle(cols)
        if ids and (cols[0] if isinstance(cols[0], str) else cols[0][0]) == idname:
            cols.append(cols.pop(0))
    else:
        c = cols.pop(ids[0])
        cols.insert(len(cols) if r < 0.7 else rx.randint(1, len(cols)), c)
    return cols


def gen_dump_case(rng, i):
    regime = 'grid' if i % 2 == 0 else 'generic'
    units = 'metal' if rng.random() < 0.5 else rng.choice(c07.UNIT_STYLES)
    props = [p for p in DUMP_EXTRA if rng.random() < 0.18 and not (units == 'lj' and p[0] == 'torque')]
    d = gen_desc(rng, regime, props, lammps=rng.random() > 0.04)
    if 'stress' in d['props']:
        is_int, shape, arr = d['props']['stress']
        d['props']['stress'] = (is_int, (3, 3), arr)
    n = len(d['atype'])
    if rng.random() < 0.25:
        ids = rng.sample(range(1, 4 * n + 2), n)
        if rng.random() < 0.1 and n > 1:
            ids[0] = ids[1]                       # duplicate ids: both sides refuse
        # identifiers of another size: beyond 1000, 2^24 (neighbouring ids are one float32), 2^31, 2^53 (one double)
        # - whatever the loader sorts the rows with has to tell them apart.  (A generator of its own: the main stream
        # of random choices stays what it was.)
        rx = random.Random('c08-ids %r' % (ids,))
        if rx.random() < 0.4:
            off = rx.choice([1000, 2 ** 24, 2 ** 31, 2 ** 53, 10 ** 15])
            ids = [off + v for v in ids]
        d['props'] = dict([('atom_id', (True, (), [[v] for v in ids]))] + list(d['props'].items()))
    if rng.random() < 0.5:
        for _ in range(rng.randint(1, 3)):
            add_zoo_prop(rng, d, *pick_zoo(rng))
    ff = pick_format(rng, units)
    prop_names = None
    if rng.random() < 0.45:
        # explicit column selection with scaled / unwrapped position variants
        prop_names = ['atom_id', 'atype'] + rng.sample(['pos', 'spos', 'upos', 'supos'], rng.randint(1, 3)) \
            + [p for p in d['props'] if p != 'atom_id' and rng.random() < 0.7]
        prop_names = permute_columns(prop_names, 'atom_id')
    return {'kind': 'dump', 'd': d, 'units': units, 'ff': ff, 'prop_names': prop_names}


def gen_poscar_case(rng, i):
    regime = 'grid' if i % 2 == 0 else 'generic'
    d = gen_desc(rng, regime, [], lammps=rng.random() < 0.7)
    coordstyle = rng.choice(['direct', 'cartesian', 'Direct', 'Cartesian', 'cart', 'k', 'D'])
    if regime == 'grid':
        scale = rng.choice([1.0, 2.0, 0.5, 4.0, 0.25, 1.0])
    else:
        scale = rng.choice([1.0, rng.uniform(0.3, 6.0), 3.615, 0.1])
    symbols = None
    if rng.random() < 0.5:
        symbols = rng.sample(['Al', 'Cu', 'Fe', 'Ni', 'O'], d['natypes'])
    header = rng.choice(['', 'test cell', 'x'])
    ff = rng.choice(['e13', 'e13', 'e8', 'e16', 'f13', 'f8', 'e5'])
    form = 'float'
    r = rng.random()
    negate = False
    if r < 0.08:
        # non-positive universal scaling factors: refused by the writer since repo fix 4add5ac (a negative value on
        # that line means the cell volume); before, the writer divided by it and the reader multiplied by it
        scale = -scale if rng.random() < 0.6 else rng.choice([-1.0, -2.5, -0.37, -3.615, -64.0, 0.0])
    elif r < 0.2:
        # the reader as coded on a file whose scale line is negative: the written line is negated by hand (tie only)
        negate = True
    elif r < 0.35:
        # tiny / huge ones: exact powers of two up to 2^+-500, decimal ones
        scale = (2.0 ** rng.choice([-500, -300, -120, -40, -10, 10, 40, 120, 300, 500])
                                           if rng.random() < 0.6 else rng.choice([1e-5, 1e6, 1e-12, 3.3e10]))
        ff = E_OF.get(ff, ff)
    elif r < 0.5:
        # the scale as a python int / numpy scalar
        form = rng.choice(SCALE_FORMS[2:])
        scale = float(rng.choice([2, 4, 3, 1, 8, 64])) if form in ('int', 'npint') else rng.choice([0.5, 2.0, 0.25, 1.5, 3.0])
    return {'kind': 'poscar', 'd': d, 'coordstyle': coordstyle, 'scale': scale, 'scale_form': form, 'symbols': symbols,
            'header': header, 'ff': ff, 'negate': negate}


def gen_table_case(rng, i):
    regime = 'grid' if i % 2 == 0 else 'generic'
    units = rng.choice(['metal', 'real', 'si', 'nano'])
    props = [p for p in [('velocity', 0, 3), ('charge', 0, 1), ('m_id', 1, 1), ('force', 0, 3)] if rng.random() < 0.5]
    d = gen_desc(rng, regime, props)
    cols = [('atype', 'none', ['type'])]
    cols.append(('pos', rng.choice(['length', 'scaled', 'none']), ['x', 'y', 'z']))
    kinds = {'velocity': 'velocity', 'charge': 'charge', 'force': 'force'}
    for name, is_int, nc in props:
        us = kinds.get(name, 'none') if rng.random() < 0.7 else 'none'
        cols.append((name, us, [name] if nc == 1 else [f'{name}[{k}]' for k in range(nc)]))
    if rng.random() < 0.6:
        for _ in range(rng.randint(1, 3)):
            cols.append(table_col_for(rng, d, add_zoo_prop(rng, d, *pick_zoo(rng))))
    if rng.random() < 0.5:
        cols.insert(0, ('a_id', 'none', ['id']))
    cols = permute_columns(cols, 'a_id')
    return {'kind': 'table', 'd': d, 'units': units, 'ff': pick_format(rng, units), 'cols': cols,
            'header': rng.random() < 0.5}


def wcase_sample(c):
    d = c['d']
    s = {k: v for k, v in c.items() if k not in ('d',)}
    s.update({'natoms': len(d['atype']), 'pbc': d['pbc'], 'regime': d['regime'], 'vects': d['vects'],
              'origin': d['origin'], 'props': list(d['props'])})
    return s


def wcase_replay(c):
    d = c['d']
    r = {k: v for k, v in c.items() if k != 'd'}
    if c.get('sized') is not None:
        return r                # a system of a given SIZE is stored as its specification (rebuilt by c07.sized_desc)
    r['d'] = {k: (v if k != 'props' else {n: [p[0], list(p[1]), p[2]] for n, p in v.items()}) for k, v in d.items()}
    return r


def wcase_from_replay(r):
    c = dict(r)
    if r.get('sized') is not None and 'd' not in r:
        c['d'] = c07.sized_desc(r['sized'])
        if c.get('cols') is not None:
            c['cols'] = [tuple(x) for x in c['cols']]
        return c
    d = dict(r['d'])
    d['props'] = {n: (bool(p[0]), tuple(p[1]), p[2]) for n, p in d['props'].items()}
    c['d'] = d
    if c.get('symbols') is not None:
        c['symbols'] = list(c['symbols'])
    if c.get('cols') is not None:
        c['cols'] = [tuple(x) for x in c['cols']]
    return c


# ----------------------------------------------------------------------------------------
# the real writers (with the column table they return) and loaders
# ----------------------------------------------------------------------------------------

SCALE_FORMS = ['float', 'float', 'int', 'np64', 'np32', 'npint']


def scale_arg(w):
    """the box_scale argument in the form the case names (python float / int, numpy float64 / float32 / int64)."""
    np = _np()
    v = w['scale']
    form = w.get('scale_form') or 'float'
    if form == 'int':
        return int(v)
    if form == 'np64':
        return np.float64(v)
    if form == 'np32':
        return np.float32(v)
    if form == 'npint':
        return np.int64(v)
    return float(v)


def dump_call(w, s, f=None):
    """System.dump of the format of the case, the target `f` given or not: the raw return value."""
    from atomman.lammps import style as lstyle
    d = w['d']
    fkw = {} if f is None else {'f': f}
    if w['kind'] == 'data':
        kw = {}
        if w.get('natypes') is not None:
            kw['natypes'] = w['natypes']
        return s.dump('atom_data', atom_style=w['style'], units=w['units'], float_format=c07.fmt_py(w['ff']),
                      return_info=False, safecopy=True, **kw, **fkw)
    if w['kind'] == 'dump':
        kw = {}
        if w['prop_names'] is not None:
            kw['prop_name'] = list(w['prop_names'])
        return s.dump('atom_dump', lammps_units=w['units'], float_format=c07.fmt_py(w['ff']), return_prop_info=True, **kw, **fkw)
    if w['kind'] == 'table':
        lu = lstyle.unit(w['units'])
        unit = []
        for prop, us, names in w['cols']:
            unit.append(None if us == 'none' else 'scaled' if us == 'scaled' else '*'.join(lu[p] for p in us.split('*')))
        shape = [tuple(d['props'][c[0]][1]) if c[0] in d['props'] else ((3,) if c[0] == 'pos' else ()) for c in w['cols']]
        return s.dump('table', prop_name=[c[0] for c in w['cols']], table_name=[c[2] for c in w['cols']], unit=unit,
                      shape=shape, header=w['header'], float_format=c07.fmt_py(w['ff']), return_prop_info=True, **fkw)
    kw = {}
    if w['symbols'] is not None:
        kw['symbols'] = w['symbols']
    return s.dump('poscar', header=w['header'], coordstyle=w['coordstyle'], box_scale=scale_arg(w),
                  float_format=c07.fmt_py(w['ff']), **kw, **fkw)


def write_case(w):
    """-> ('ok', text, prop_info of dump / table | None, the system) | (errclass, msg)."""
    import atomman as am  # noqa
    try:
        s = build_system(w['d'])
        r = dump_call(w, s)
        if w['kind'] in ('dump', 'table'):
            return ('ok', r[0], r[1], s)
        return ('ok', r, None, s)
    except cm.InfraError:
        raise
    except Exception as e:  # noqa
        return (c07.err_class(e), f'{type(e).__name__}: {e}')


class Inputs:
    """the same text as a string, a path, a pathlib.Path, an open binary file, a BytesIO."""

    def __init__(self):
        self.dir = tempfile.mkdtemp(prefix='c08_')
        self.n = 0
        self.open = []

    def make(self, text, mode):
        if mode == 'str':
            return text
        if mode == 'bytes':
            return text.encode('ascii')
        if mode == 'stream':
            return io.BytesIO(text.encode('ascii'))
        path = self.new_path()
        with open(path, 'w', encoding='ascii', newline='') as fh:
            fh.write(text)
        if mode == 'path':
            return path
        if mode == 'pathobj':
            from pathlib import Path
            return Path(path)
        fh = open(path, 'rb')
        self.open.append(fh)
        return fh

    def new_path(self, name=None):
        self.n += 1
        return os.path.join(self.dir, f'f{self.n}.txt' if name is None else f'{self.n} {name}')

    def done(self):
        import shutil
        for fh in self.open:
            try:
                fh.close()
            except Exception:
                pass
        shutil.rmtree(self.dir, ignore_errors=True)


def _real_load(kind, inp, opts, box=None):
    """-> ('ok', System) | (errclass, message)"""
    import atomman as am
    try:
        if kind == 'data':
            kw = {'pbc': opts['pbc'], 'units': opts['units']}
            if opts.get('style_arg') is not None:
                kw['atom_style'] = opts['style_arg']
            if opts.get('symbols') is not None:
                kw['symbols'] = opts['symbols']
            return ('ok', am.load('atom_data', inp, **kw))
        if kind == 'dump':
            kw = {'lammps_units': opts['units']}
            if opts.get('pi') is not None:
                kw['prop_info'] = opts['pi']
            if opts.get('symbols') is not None:
                kw['symbols'] = opts['symbols']
            return ('ok', am.load('atom_dump', inp, **kw))
        if kind == 'table':
            return ('ok', am.load('table', inp, box=box, prop_info=opts['pi'], header=0 if opts['header'] else None))
        kw = {}
        if opts.get('symbols') is not None:
            kw['symbols'] = opts['symbols']
        return ('ok', am.load('poscar', inp, **kw))
    except Exception as e:  # noqa
        return (err_class(e), f'{type(e).__name__}: {e}')


def real_load(kind, inp, opts, box=None):
    r = _real_load(kind, inp, opts, box)
    if r[0] == 'ok':
        try:
            real_sysdict(r[1])
        except AbsurdSystem as e:
            return ('absurd', f'a system with {e}')
        except Exception as e:  # noqa
            # looking at the loaded system (natypes, symbols, property table) runs the implementation's code: what it
            # raises there is an observation about the system that was loaded
            return ('absurd', f'a system that cannot be looked at: {type(e).__name__}: {e}')
    return r


def model_line(kind, text, opts, d=None):
    hx = c07.hexs(text)
    if kind == 'data':
        st = opts.get('style_arg')
        return (f"ldata {' '.join('1' if b else '0' for b in opts['pbc'])} {enc_symbols(opts.get('symbols'))} "
                f"{st.replace(' ', '+') if st is not None else '-'} {c07.enc_units(c07.unit_factors(opts['units']))} {hx}")
    if kind == 'dump':
        pi = opts.get('pi')
        cols = ' '.join(enc_pcol(p) for p in (pi or []))
        return (f"ldump {enc_symbols(opts.get('symbols'))} {'1' if pi is not None else '0'} {len(pi or [])} {cols} "
                f"{c07.enc_units(c07.unit_factors(opts['units']))} {hx}").replace('  ', ' ')
    if kind == 'table':
        cols = ' '.join(enc_pcol(p) for p in opts['pi'])
        return f"ltable {'1' if opts['header'] else '0'} {enc_box(opts['vects'], opts['origin'])} {len(opts['pi'])} {cols} {hx}"
    return f"lposcar {enc_symbols(opts.get('symbols'))} {hx}"


# ----------------------------------------------------------------------------------------
# text transformations: what the formats allow (comments, blank lines, white space, line order)
# ----------------------------------------------------------------------------------------
COMMENTS = ['', ' c', ' 5 atoms', ' Atoms', ' Masses', ' 0.0 1.0 xlo xhi', ' 1 2 3.0 4.0 5.0', " it's", ' x # y', ' Velocities',
            ' 3 atom types', ' ITEM: ATOMS id', '\t tab', ' 1 1 0.5 0.5 0.5 0 0 0']
BLANKS = ['', '', ' ', '\t', '   \t ']


def _vary_ws(line, rng):
    if not line.strip():
        return line
    toks = line.split(' ')
    out = toks[0]
    for t in toks[1:]:
        out += rng.choice([' ', ' ', '  ', '\t', ' \t ']) + t
    if rng.random() < 0.4:
        out = rng.choice([' ', '\t', '   ']) + out
    if rng.random() < 0.4:
        out += rng.choice([' ', '\t', '  '])
    return out


def split_text(text):
    lines = text.split('\n')
    final_nl = bool(lines) and lines[-1] == ''
    if final_nl:
        lines.pop()
    return lines, final_nl


def find_sections(lines, kind, natoms):
    """index ranges (start, stop) of the row blocks that carry atom ids."""
    out = []
    if kind == 'data':
        for i, l in enumerate(lines):
            t = l.split('#')[0].split()
            if t in (['Atoms'], ['Velocities']):
                out.append((i + 2, i + 2 + natoms))
    elif kind == 'dump':
        for i, l in enumerate(lines):
            if l.startswith('ITEM: ATOMS'):
                out.append((i + 1, i + 1 + natoms))
    return out


def transform(kind, text, ops, tseed, natoms, natypes=1, has_id=True, header=False):
    """apply the named operations; every random choice derives from tseed."""
    rng = random.Random(tseed)
    lines, final_nl = split_text(text)
    if 'swap' in ops and kind == 'data':
        # LAMMPS reads the sections of a data file in any order: Velocities before Atoms
        ia = [i for i, l in enumerate(lines) if l.split('#')[0].split() == ['Atoms']]
        iv = [i for i, l in enumerate(lines) if l.split('#')[0].split() == ['Velocities']]
        if ia and iv and iv[0] > ia[0]:
            lines = lines[:ia[0]] + lines[iv[0]:] + [''] + lines[ia[0]:iv[0] - 1]
    if kind == 'table':
        secs = [(1 if header else 0, len(lines))]
    else:
        secs = find_sections(lines, kind, natoms)
    if 'shuffle' in ops and (kind != 'table' or has_id):
        for a, b in secs:
            blk = lines[a:b]
            rng.shuffle(blk)
            lines[a:b] = blk
    if 'reverse' in ops and (kind != 'table' or has_id):
        for a, b in secs:
            lines[a:b] = lines[a:b][::-1]
    if 'swapmid' in ops and (kind != 'table' or has_id):
        # two interior atom lines exchanged: the first and the last line stay where they are (a file that looks sorted
        # at both ends)
        for a, b in secs:
            if b - a >= 4:
                i, j = rng.sample(range(a + 1, b - 1), 2)
                lines[i], lines[j] = lines[j], lines[i]
    protected = set()
    if kind == 'poscar':
        protected = {0, 1} | set(range(5, 8 if not lines[5].split()[0].lstrip('+-').isdigit() else 7))
    if 'nohint' in ops and kind == 'data':
        lines = [('Atoms' if l.split('#')[0].split() == ['Atoms'] else l) for l in lines]
    if 'hintws' in ops and kind == 'data':
        lines = [(l.replace('Atoms # ', 'Atoms  #\t') + '  ' if l.split('#')[0].split() == ['Atoms'] else l) for l in lines]
    if 'trail' in ops and kind == 'data':
        for i, l in enumerate(lines):
            if l.strip() and '#' not in l and l.split() != ['Atoms'] and rng.random() < 0.35:
                lines[i] = l + rng.choice([' #', '  #', '\t#', '#']) + rng.choice(COMMENTS)
    if 'ws' in ops:
        for i, l in enumerate(lines):
            if kind == 'data' and l.split('#')[0].split() == ['Atoms']:
                continue                     # its comment is the atom_style, compared as a string
            if i not in protected and rng.random() < 0.5:
                lines[i] = _vary_ws(l, rng)
    if 'title' in ops and kind == 'data' and lines and not lines[0].strip():
        lines[0] = rng.choice(['LAMMPS data file via atomman', 'title: 12 Al atoms in a box', '# comment title', 'x',
                               'fcc Al cell with 12 atoms', 'written for 2 atom types'])
    if 'masses' in ops and kind == 'data':
        ms = list(range(1, natypes + 1))
        rng.shuffle(ms)
        blk = ['Masses' + rng.choice(['', ' # amu', '  ']), '']
        for t in ms:
            blk.append(f'{t} {rng.choice(["26.98", "55.845", "1.008", "63.5460", "1e2"])}' + rng.choice(['', ' # Al', '  ']))
        blk.append('')
        idx = [i for i, l in enumerate(lines) if l.split('#')[0].split() in (['Atoms'], ['Velocities'])]
        where = rng.choice(['before', 'before', 'after', 'end'])
        if where == 'before':
            lines[idx[0]:idx[0]] = blk
        elif where == 'after' and len(idx) > 1:
            lines[idx[1]:idx[1]] = blk
        else:
            lines += [''] + blk[:-1]
    if 'inject' in ops and kind != 'poscar':
        k = rng.randint(1, 6)
        for _ in range(k):
            pos = rng.randint(0, len(lines))
            if kind == 'data':
                new = rng.choice(BLANKS) if rng.random() < 0.4 else rng.choice(['', ' ', '\t']) + '#' + rng.choice(COMMENTS)
                # the first physical line is the title for LAMMPS; atomman does not treat it specially
            else:
                new = rng.choice(BLANKS)
            if kind == 'table' and header and pos == 0:
                pos = 1
            lines.insert(pos, new)
    out = '\n'.join(lines)
    if final_nl and 'nonl' not in ops:
        out += '\n'
    elif 'addnl' in ops:
        out += '\n'
    return out


OPS = {'data': ['shuffle', 'reverse', 'trail', 'ws', 'title', 'masses', 'inject', 'nonl', 'nohint', 'hintws', 'swap'],
       'dump': ['shuffle', 'reverse', 'ws', 'inject', 'nonl'],
       'table': ['shuffle', 'reverse', 'ws', 'inject', 'nonl'],
       'poscar': ['ws', 'addnl']}


def pick_ops(rng, kind):
    r = rng.random()
    if r < 0.15:
        return []
    if r < 0.35:
        return [rng.choice(OPS[kind])]
    ops = [o for o in OPS[kind] if rng.random() < 0.4]
    if 'shuffle' in ops and 'reverse' in ops:
        ops.remove('reverse')
    return ops


MALFORMS = ['no-atoms-count', 'no-xlo', 'no-ylo', 'no-zlo', 'no-Atoms', 'commented-atoms-count', 'commented-Atoms',
            'masses-before-types', 'bad-mass', 'dup-mass']


def malform(text, what, rng):
    """remove / damage one required item of a data file. Returns (text, expected error class)."""
    lines, final_nl = split_text(text)

    def idx(pred):
        return [i for i, l in enumerate(lines) if pred(l.split('#')[0].split())]
    if what in ('no-atoms-count', 'commented-atoms-count'):
        i = idx(lambda t: len(t) == 2 and t[1] == 'atoms')[0]
        if what == 'no-atoms-count':
            del lines[i]
        else:
            lines[i] = '# ' + lines[i]
    elif what in ('no-xlo', 'no-ylo', 'no-zlo'):
        a = what[3]
        i = idx(lambda t: len(t) == 4 and t[2] == a + 'lo')[0]
        del lines[i]
    elif what in ('no-Atoms', 'commented-Atoms'):
        i = idx(lambda t: t == ['Atoms'])[0]
        if what == 'no-Atoms':
            del lines[i]
        else:
            lines[i] = '#' + lines[i]
    elif what == 'masses-before-types':
        i = idx(lambda t: len(t) == 3 and t[1:] == ['atom', 'types'])[0]
        del lines[i]
        j = idx(lambda t: t == ['Atoms'])[0]
        lines[j:j] = ['Masses', '', '1 26.98', '']
    elif what in ('bad-mass', 'dup-mass'):
        j = idx(lambda t: t == ['Atoms'])[0]
        row = {'bad-mass': rng.choice(['1 -26.98', '0 26.98', '1 26.98 3', '1', 'Al 26.98', '99 1.0']), 'dup-mass': '1 26.98'}[what]
        nt = int([l for l in lines if l.split('#')[0].split()[1:] == ['atom', 'types']][0].split()[0])
        body = [row] + ['1 26.98'] * (nt - 1) if what == 'dup-mass' else [row] * nt
        if what == 'dup-mass' and nt == 1:
            return None
        lines[j:j] = ['Masses', ''] + body + ['']
    return '\n'.join(lines) + ('\n' if final_nl else '')


# ----------------------------------------------------------------------------------------
# working units: every round trip is run under atomman's default working units and under others (SI, nm-based,
# pm / cm based, Joule / Coulomb based, numericalunits' random ones), switched back and forth within the process
# ----------------------------------------------------------------------------------------
WU_POOL = [{'kw': {'length': 'm', 'mass': 'kg', 'time': 's', 'charge': 'C'}},                    # SI
           {'kw': {'length': 'nm', 'mass': 'amu', 'energy': 'eV', 'charge': 'e'}},               # nm instead of angstrom
           {'kw': {'length': 'nm', 'mass': 'g', 'time': 'ns', 'charge': 'C'}},
           {'kw': {'length': 'pm', 'mass': 'amu', 'energy': 'eV', 'charge': 'e'}},
           {'kw': {'length': 'cm', 'mass': 'amu', 'energy': 'eV', 'charge': 'e'}},
           {'kw': {'length': 'angstrom', 'time': 'ps', 'energy': 'J', 'charge': 'C'}}]
E_OF = {'f13': 'e13', 'f5': 'e5', 'f8': 'e8', 'f3': 'e5', 'f16': 'e16', 'f1': 'e5'}


def gen_wu(rng, p=0.35):
    r = rng.random()
    if r >= p:
        return None
    if r < p * 0.6:
        return {'kw': dict(rng.choice(WU_POOL)['kw'])}
    return {'seed': rng.randint(1, 10 ** 6)}


def wu_label(wu):
    return 'default' if not wu else 'random (numericalunits seed)' if 'seed' in wu else c07.wu_key(wu)


def mag(d):
    """size of the system in the numbers it is stored in (no floor: scale-free)."""
    np = _np()
    return max(float(np.abs(np.asarray(d['pos'], dtype=float)).max()), float(np.abs(np.asarray(d['vects'], dtype=float)).max()),
               float(np.abs(np.asarray(d['origin'], dtype=float)).max()))


def scale_by(d, f, lengths=(), geometry=True):
    """the whole geometry (cell, origin, positions) and the named length-like properties times f (for an exact power
    of two the doubles scale exactly)."""
    d = dict(d)
    if geometry:
        d['vects'] = [[v * f for v in r] for r in d['vects']]
        d['origin'] = [v * f for v in d['origin']]
        d['pos'] = [[v * f for v in r] for r in d['pos']]
    d['props'] = {n: ((i, sh, [[v * f for v in r] for r in arr]) if n in lengths and not i else (i, sh, arr))
                  for n, (i, sh, arr) in d['props'].items()}
    return d


def under_wu(c):
    """switches atomman to the working units of the case; -> the case with its system stored in those units (the same
    physical system: every number times the value of its metal unit) and, for the formats that print numbers in
    working units (POSCAR, table columns without unit), a %e format, which resolves numbers of any size; then the
    whole geometry times 2^k (`pow2`)."""
    wu = c.get('wu')
    c07.ensure_wu(wu)
    if not wu and not c.get('pow2') and not c.get('posform'):
        return c
    key = '_as_run'
    if key not in c:
        w = dict(c['w'])
        # per-atom properties written box-relative are lengths like the positions: they go with the geometry
        lengths = [p for p, us, _n in w.get('cols', []) if us == 'scaled' and p in w['d']['props']]
        if wu:
            w['d'] = c07.scale_desc(w['d'], wu)
            w['d'] = scale_by(w['d'], float(c07.nu_value('angstrom')), lengths, geometry=False)
        if (wu and c['kind'] in ('table', 'poscar')) or c.get('pow2'):
            w['ff'] = E_OF.get(w['ff'], w['ff'])
        if c.get('pow2'):
            w['d'] = scale_by(w['d'], 2.0 ** c['pow2'], lengths)
        if c.get('posform'):
            np = _np()
            w['d'] = dict(w['d'], posform=c['posform'])
            if c['posform'] == 'f32':
                w['d']['pos'] = [[float(np.float32(v)) for v in r] for r in w['d']['pos']]
            elif c['posform'] == 'int':
                w['d']['pos'] = [[float(round(v)) for v in r] for r in w['d']['pos']]
        c2 = {k: v for k, v in c.items() if k != key}
        c2['w'] = w
        c[key] = c2
    return c[key]


# ----------------------------------------------------------------------------------------
# the ways of naming the target of a dump (and then the source of the load)
# ----------------------------------------------------------------------------------------
SINKS = ['path', 'pathobj', 'pathlike', 'text', 'stringio', 'binary']
PRIORS = [None, 'bigger', 'bigger', 'text']
STALE_TEXT = 'earlier content of the target\n' * 3


class FsPath:
    """an os.PathLike that is neither a str nor a pathlib.Path."""

    def __init__(self, p):
        self.p = p

    def __fspath__(self):
        return self.p

    def __repr__(self):
        return f'FsPath({self.p!r})'


def returns_content(ret):
    return isinstance(ret, str) or (isinstance(ret, tuple) and any(isinstance(x, str) for x in ret))


def dump_through(w, sink, prior, inputs, between=None):
    """System.dump of the case through one way of naming the target, which (with `prior`) exists already and is not
    empty: 'bigger' = an earlier dump of a bigger system through the same kind of target, 'text' = some longer text.
    -> {'error': exception | None, 'ret': return value, 'content': what the target holds afterwards | None, 'path'}"""
    from pathlib import Path
    path = inputs.new_path('my snapshot.txt')
    buf = io.StringIO()

    def one(wr):
        fh = None
        if sink == 'path':
            f = path
        elif sink == 'pathobj':
            f = Path(path)
        elif sink == 'pathlike':
            f = FsPath(path)
        elif sink == 'text':
            f = fh = open(path, 'w', encoding='UTF-8', newline='')
        elif sink == 'binary':
            f = fh = open(path, 'wb')
        else:
            f = buf
        try:
            return dump_call(wr, build_system(wr['d']), f)
        finally:
            if fh is not None:
                fh.close()
    out = {'error': None, 'ret': None, 'content': None, 'path': path, 'prefix': ''}
    try:
        if prior == 'bigger':
            big = dict(w)
            big['d'] = c07.bigger_desc(w['d'])
            if w.get('natypes') is not None:
                big['natypes'] = w['natypes']
            try:
                one(big)
                if between is not None:
                    # the earlier content is loaded from the target before the target is written again
                    between({'path': path, 'content': buf.getvalue(), 'prefix': ''})
            except Exception:  # noqa  (the earlier dump is scenery; the dump under test is the next one)
                pass
            if sink == 'stringio':
                out['prefix'] = buf.getvalue()
        elif prior == 'text':
            if sink == 'stringio':
                buf.write(STALE_TEXT)
                out['prefix'] = STALE_TEXT
            else:
                with open(path, 'w', encoding='UTF-8', newline='') as fh:
                    fh.write(STALE_TEXT * 40)
        out['ret'] = one(w)
    except cm.InfraError:
        raise
    except Exception as e:  # noqa
        out['error'] = e
    if sink == 'stringio':
        out['content'] = buf.getvalue()
    elif os.path.isfile(path):
        with open(path, encoding='UTF-8', newline='') as fh:
            out['content'] = fh.read()
    return out


def source_of(sink, res, inputs):
    """the written target named for the loader the way it was named for the writer (the loaders take a str, a
    pathlib.Path, bytes or a binary stream: a text stream / other PathLike is re-opened / given as str)."""
    from pathlib import Path
    if sink == 'pathobj':
        return Path(res['path'])
    if sink in ('path', 'pathlike'):
        return res['path']
    if sink == 'stringio':
        return io.BytesIO(res['content'][len(res['prefix']):].encode('utf-8'))
    fh = open(res['path'], 'rb')
    inputs.open.append(fh)
    return fh


# ----------------------------------------------------------------------------------------
# cases
# ----------------------------------------------------------------------------------------
MODES = ['str', 'str', 'path', 'stream', 'file', 'pathobj', 'bytes']


ELEMENTS = ['Al', 'Cu', 'Fe', 'Ni', 'O', 'H', 'Si', 'Ag', 'Au', 'Ti', 'W', 'Mo']


def pick_symbols(rng, n):
    pool = list(ELEMENTS)
    rng.shuffle(pool)
    return [pool[k] if k < len(pool) else f'X{k}' for k in range(n)]


def gen_case(rng, kind, i):
    if kind == 'data':
        w = gen_data_case(rng, i)
        w['fname'] = None
        # a dropped required property makes the writer refuse: nothing to load
    elif kind == 'dump':
        w = gen_dump_case(rng, i)
    elif kind == 'table':
        w = gen_table_case(rng, i)
        if rng.random() < 0.3 and 'stress' not in w['d']['props']:
            n = len(w['d']['atype'])
            w['d']['props']['stress'] = (False, (3, 3), [[gen_value(rng, w['d']['regime'], False) for _ in range(9)] for _ in range(n)])
            w['cols'].append(('stress', rng.choice(['none', 'force']), [f'stress[{a}][{b}]' for a in range(3) for b in range(3)]))
    else:
        w = gen_poscar_case(rng, i)
        if rng.random() < 0.3:
            # more symbols than occupied types (types with gaps come from gen_desc)
            d = w['d']
            d['natypes'] = max(d['atype']) + rng.randint(0, 2)
            if w['symbols'] is not None or rng.random() < 0.5:
                w['symbols'] = pick_symbols(rng, d['natypes'])
                if d['natypes'] > max(d['atype']):
                    d['symbols'] = list(w['symbols'])       # the system itself has the unused last types
            else:
                d['natypes'] = max(d['atype'])
    c = {'kind': kind, 'w': w, 'mode': rng.choice(MODES), 'ops': pick_ops(rng, kind), 'tseed': rng.randrange(1 << 30),
         'symbols_arg': None, 'style_arg': None, 'use_pi': True, 'wu': gen_wu(rng), 'sink': None, 'prior': None,
         'posform': None, 'alias': rng.random() < 0.25, 'argform': rng.random() < 0.25, 'crlf': rng.random() < 0.15, 'redump': rng.random() < 0.2, 'pow2': None}
    if kind != 'poscar' and 'shuffle' not in c['ops'] and 'reverse' not in c['ops'] \
            and random.Random('c08-swapmid %d' % c['tseed']).random() < 0.3:
        c['ops'] = c['ops'] + ['swapmid']       # (a generator of its own: the main stream stays what it was)
    if rng.random() < 0.45:
        c['sink'] = rng.choice(SINKS)
        c['prior'] = rng.choice(PRIORS)
    r = rng.random()
    if r < 0.12:
        # positions / types handed to Atoms as float32 (no wrapping writer: wrap would round to float32), integers,
        # Fortran-ordered, nested lists
        c['posform'] = rng.choice(['int', 'fortran', 'list'] + (['f32', 'f32'] if kind != 'data' else []))
        if c['posform'] == 'int' and c['wu']:
            c['posform'] = 'list'
    if rng.random() < 0.12:
        # the whole geometry times an exact power of two (squares and cubes stay inside the double range)
        c['pow2'] = rng.choice([-1, 1]) * rng.choice([20, 60, 150, 300, 330])
    if c['posform'] in ('f32', 'int') and (c['pow2'] or (kind == 'poscar' and not 2.0 ** -60 <= abs(w['scale']) <= 2.0 ** 60)):
        c['posform'] = 'fortran'        # float32 / int64 positions stay inside the float32 / int64 range
    if kind == 'data':
        r = rng.random()
        c['style_arg'] = 'given' if r < 0.4 else 'none'
        if 'nohint' in c['ops'] and w['style'] != 'atomic' and c['style_arg'] == 'none' and rng.random() < 0.8:
            c['style_arg'] = 'given'
        # an atom_style argument that is NOT the one of the file (documented ValueError when the file names its style);
        # drawn from a generator derived from the case so that the main stream of choices is unchanged
        if 'nohint' not in c['ops'] and random.Random('c08-stylearg %r' % (c['tseed'],)).random() < 0.12:
            c['style_arg'] = 'other'
        if rng.random() < 0.2:
            nt = (w['natypes'] or w['d']['natypes']) if 'masses' in c['ops'] else max(w['d']['atype']) + (1 if rng.random() < 0.3 else 0)
            c['symbols_arg'] = pick_symbols(rng, nt)
    if kind == 'dump':
        c['use_pi'] = rng.random() < (0.85 if w['d'].get('dtypes') else 0.5)
    if kind in ('dump', 'poscar') and rng.random() < 0.25:
        # the symbols= argument of the loader: as many as there are types, one more, or (several types) one fewer
        top = max(w['d']['atype'])
        c['symbols_arg'] = pick_symbols(rng, max(1, top + rng.choice([0, 0, 0, 1, -1])))
    return c


def other_style(style):
    """an atom_style that differs from `style`: for a hybrid one with the same first sub-style (a comparison of the
       first words only does not tell them apart), otherwise another plain style"""
    words = style.split()
    if words[0] == 'hybrid':
        return ' '.join(words + ['bond']) if 'bond' not in words else ' '.join(w for w in words if w != 'bond') or 'hybrid'
    return 'charge' if style != 'charge' else 'atomic'


def load_opts(c, extra):
    w = c['w']
    d = w['d']
    if c['kind'] == 'data':
        sa = {'given': w['style'], 'other': other_style(w['style'])}.get(c['style_arg'])
        return {'pbc': list(d['pbc']), 'units': w['units'], 'style_arg': sa, 'symbols': c['symbols_arg']}
    if c['kind'] == 'dump':
        return {'units': w['units'], 'pi': extra if c['use_pi'] else None, 'symbols': c['symbols_arg']}
    if c['kind'] == 'table':
        return {'pi': extra, 'header': w['header'], 'vects': d['vects'], 'origin': d['origin']}
    return {'symbols': c['symbols_arg']}


def case_replay(c):
    r = {k: v for k, v in c.items() if k not in ('w', '_as_run')}
    r['w'] = wcase_replay(c['w'])
    return r


def case_from_replay(r):
    c = dict(r)
    c['w'] = wcase_from_replay(r['w'])
    return c


def case_sample(c):
    s = {k: v for k, v in c.items() if k not in ('w', '_as_run')}
    s['writer'] = wcase_sample(c['w'])
    return s


def transformed_text(c, text):
    w = c['w']
    d = w['d']
    has_id = c['kind'] != 'table' or any(p == 'a_id' for p, _u, _n in w['cols'])
    return transform(c['kind'], text, c['ops'], c['tseed'], len(d['atype']), natypes=(w.get('natypes') or d['natypes']),
                     has_id=has_id, header=bool(w.get('header')) if c['kind'] == 'table' else False)


# ----------------------------------------------------------------------------------------
# correspondence
# ----------------------------------------------------------------------------------------

def pandas_rows(text, comment, skip, nrows):
    """what pandas itself selects (as strings) for the row-selection assumption."""
    import pandas as pd
    if comment:
        # the data-file loader removes the comments itself (line numbering unchanged) before pandas reads the tables
        text = ''.join(l.split('#')[0].rstrip() + '\n' for l in io.StringIO(text, newline='\n'))
    try:
        df = pd.read_csv(io.BytesIO(text.encode('ascii')), sep=r'\s+', skiprows=skip, nrows=nrows, comment='#' if comment else None,
                         header=None, dtype=str, names=[f'c{i}' for i in range(240)], keep_default_na=False, na_filter=False)
    except Exception as e:  # noqa
        return ('err', type(e).__name__)
    rows = []
    for r in df.values.tolist():
        rows.append([t for t in r if isinstance(t, str) and t != ''])
    return ('ok', rows)


def negate_scale_line(text):
    """a POSCAR file with the sign of its universal scaling factor flipped (the rest as written)."""
    lines = text.split('\n')
    t = lines[1].strip()
    lines[1] = lines[1].replace(t, t[1:] if t[:1] == '-' else '-' + t.lstrip('+'))
    return '\n'.join(lines)


def count(ctx, table, key):
    t = ctx.extra.setdefault(table, {})
    t[key] = t.get(key, 0) + 1


def run_cases(ctx, cases):
    inputs = Inputs()
    try:
        prepared = []
        for c0 in cases:
            c = under_wu(c0)                     # atomman's working units are those of the case from here on
            wr = write_case(c['w'])
            if wr[0] != 'ok':
                ctx.stats.case(c['kind'], repr(case_replay(c0))[:3000], nontrivial=False, sample=None)
                continue
            text0, extra, s = wr[1], wr[2], wr[3]
            text = transformed_text(c, text0)
            if c['w'].get('negate'):
                text = negate_scale_line(text)
            opts = load_opts(c, extra)
            kind = c['kind']
            # the model is run with the unit values in force now; the real loader is called now as well
            line = model_line(kind, text, opts)
            real = real_load(kind, inputs.make(text, c['mode']), opts, box=s.box if kind == 'table' else None)
            rd = real_sysdict(real[1]) if real[0] == 'ok' else None
            prepared.append((c0, c, text, line, real, rd))
            count(ctx, 'working_units_correspondence', wu_label(c.get('wu')))
        outs = ctx.driver.ask_many([p[3] for p in prepared])
        rowchecks = []
        for (c0, c, text, line, real, rd), o in zip(prepared, outs):
            kind = c['kind']
            ctx.stats.case(kind, line, sample=case_sample(c0))
            count_shapes(ctx, c, 'correspondence')
            res = ctx.extra.setdefault('results', {}).setdefault(kind, {})
            res[real[0]] = res.get(real[0], 0) + 1
            count(ctx, 'input_modes', c['mode'])
            for op in c['ops']:
                count(ctx, 'transformations', op)
            rp = {'op': 'case', 'case': case_replay(c0), 'text': text}
            wus = '' if not c.get('wu') else f" under working units {c07.wu_key(c['wu'])}"
            if real[0] != 'ok':
                if o != real[0]:
                    ctx.disagree(f'{kind}:error-class', f"load('{kind}'){wus} raises {real[1]} ({real[0]}), the model answers {o[:60]}", rp)
                continue
            m = decode_loaded(o)
            if m is None:
                ctx.disagree(f'{kind}:error-class', f"load('{kind}'){wus} returns a system, the model refuses with {o}", rp)
                continue
            diffs = compare_loaded(m, rd, mag(c['w']['d']) * 8)
            if diffs:
                ctx.disagree(f'{kind}:loaded', f"load('{kind}'){wus} and the model disagree: " + '; '.join(diffs[:4]), rp)
            if kind in ('data', 'dump', 'table') and len(rowchecks) < 400:
                rowchecks.append((c, text))
        # the pandas assumption on its own: row selection of the model vs pandas on the same bytes
        rl, info = [], []
        for c, text in rowchecks:
            rng = random.Random(c['tseed'] + 1)
            nl = text.count('\n') + 1
            skip = rng.randint(0, max(0, nl - 1))
            nrows = rng.choice([None, 1, 2, len(c['w']['d']['atype'])])
            comment = c['kind'] == 'data'
            rl.append(f"rows {'1' if comment else '0'} {skip} {'-' if nrows is None else nrows} {c07.hexs(text)}")
            info.append((c, text, comment, skip, nrows))
        for (c, text, comment, skip, nrows), o in zip(info, ctx.driver.ask_many(rl)):
            pr = pandas_rows(text, comment, skip, nrows)
            ctx.stats.case('rows', (text, comment, skip, nrows), sample=None)
            mrows = [] if o.strip() == 'ok' else [[bytes.fromhex(t).decode('ascii') for t in r.split(',')] for r in o[3:].split('|')]
            if pr[0] == 'err':
                # pandas refuses ragged rows (a later row longer than the first); so does the model's readTable
                if mrows and len({len(r) for r in mrows}) == 1:
                    ctx.disagree('rows', f'pandas raises {pr[1]} where the model selects {len(mrows)} rows (skiprows={skip}, nrows={nrows})',
                                 {'op': 'rows', 'text': text, 'comment': comment, 'skip': skip, 'nrows': nrows})
                continue
            if pr[1] != mrows:
                ctx.disagree('rows', f'row selection differs from pandas (skiprows={skip}, nrows={nrows}, comment={comment}): '
                                     f'pandas {pr[1][:3]} model {mrows[:3]}',
                             {'op': 'rows', 'text': text, 'comment': comment, 'skip': skip, 'nrows': nrows})
    finally:
        inputs.done()
        c07.ensure_wu(None)


def run_malformed(ctx, rng, n):
    inputs = Inputs()
    try:
        items = []
        for i in range(n):
            w = gen_data_case(rng, i)
            w['fname'] = None
            wr = write_case(w)
            if wr[0] != 'ok':
                continue
            what = MALFORMS[i % len(MALFORMS)]
            text = malform(wr[1], what, rng)
            if text is None:
                continue
            ops = pick_ops(rng, 'data')
            ops = [o for o in ops if o not in ('masses', 'nohint')]
            text = transform('data', text, ops, rng.randrange(1 << 30), len(w['d']['atype'])) if 'Atoms' in what or True else text
            opts = {'pbc': list(w['d']['pbc']), 'units': w['units'], 'style_arg': w['style'], 'symbols': None}
            items.append((w, what, text, opts, rng.choice(MODES)))
        outs = ctx.driver.ask_many([model_line('data', t, o) for _w, _wh, t, o, _m in items])
        for (w, what, text, opts, mode), o in zip(items, outs):
            real = real_load('data', inputs.make(text, mode), opts)
            ctx.stats.case('malformed', (what, text), sample={'what': what, 'text': text[:300]})
            mf = ctx.extra.setdefault('malformed', {})
            mf[what + ':' + real[0]] = mf.get(what + ':' + real[0], 0) + 1
            got = real[0] if real[0] != 'ok' else 'ok'
            mo = o if o.startswith('err') else 'ok'
            if got != mo:
                ctx.disagree('malformed:' + what, f'data file with {what}: atomman gives {real[0]} '
                                                  f'({real[1] if real[0] != "ok" else "a system"}), the model {o[:40]}',
                             {'op': 'malformed', 'what': what, 'text': text, 'opts': opts})
    finally:
        inputs.done()


# ----------------------------------------------------------------------------------------
# correspondence of the output / input routes: scripts of dumps and loads over two file names and one in-memory
# stream, run on the real file system with the real writers / loaders and on the model's `World`
# ----------------------------------------------------------------------------------------
ROUTE_SINKS = ['ret', 'path', 'pathobj', 'pathlike', 'text', 'stringio', 'binary']
ROUTE_SOURCES = ['strname', 'strtext', 'pathobj', 'bytes', 'bin', 'bytesio', 'textfile', 'other']


def gen_route_script(rng, i):
    kind = ['data', 'dump', 'table', 'poscar'][i % 4]
    c = gen_case(rng, kind, i)
    c['w']['d'] = gen_desc(rng, c['w']['d']['regime'], [], nmax=4) if kind == 'poscar' else c['w']['d']
    ops = []
    written = set()
    for _ in range(rng.randint(3, 7)):
        r = rng.random()
        name = rng.choice(['a', 'b'])
        if r < 0.12:
            ops.append(['w', name])
            written.add(name)
        elif r < 0.6 or not written:
            sink = rng.choice(ROUTE_SINKS)
            ops.append(['d', sink, name if sink != 'stringio' else '0', rng.choice(['A', 'A', 'B'])])
            if sink in ('path', 'pathobj', 'pathlike', 'text', 'binary'):
                written.add(name)          # a binary stream is refused, but opening it created (emptied) the file
        else:
            src = rng.choice(ROUTE_SOURCES)
            if src in ('strtext', 'bytes', 'bytesio'):
                ops.append(['l', src, rng.choice(['A', 'B'])])
            elif src == 'other':
                ops.append(['l', src, rng.choice(sorted(written))])
            else:
                ops.append(['l', src, rng.choice(sorted(written))])
    return {'case': c, 'ops': ops}


def run_route_script(ctx, script, inputs, report, verbose=False):
    """-> None; reports through `report(key, what, replay)`."""
    from pathlib import Path
    c0 = script['case']
    c = under_wu(c0)
    kind = c['kind']
    w = c['w']
    wr = write_case(w)
    if wr[0] != 'ok':
        return False
    big = dict(w)
    big['d'] = c07.bigger_desc(w['d'])
    wb = write_case(big)
    if wb[0] != 'ok':
        return False
    texts = {'A': wr[1], 'B': wb[1]}
    cases = {'A': w, 'B': big}
    opts = {'A': load_opts(c, wr[2]), 'B': load_opts(dict(c, w=big), wb[2])}
    boxes = {'A': wr[3].box, 'B': wb[3].box}
    paths = {n: inputs.new_path(f'my {n}.txt') for n in ('a', 'b')}
    buf = io.StringIO()
    rp = {'op': 'route', 'script': {'case': case_replay(c0), 'ops': script['ops']}}
    # ---- the model
    toks = []
    for op in script['ops']:
        if op[0] == 'w':
            toks += ['w', op[1], c07.hexs(STALE_TEXT)]
        elif op[0] == 'd':
            toks += ['d', op[1], op[2] if op[1] != 'ret' else '-', c07.hexs(texts[op[3]])]
        elif op[1] in ('strtext', 'bytes', 'bytesio'):
            toks += ['l', op[1], c07.hexs(texts[op[2]])]
        elif op[1] == 'strname':
            toks += ['l', 'strtext', c07.hexs(op[2])]
        else:
            toks += ['l', op[1], op[2]]
    mo = ctx.driver.ask(f"route {'1' if kind in ('data', 'dump') else '0'} {len(script['ops'])} " + ' '.join(toks)).split(' ')
    mo = [t for t in mo if t != '']
    if not mo or mo[0] != 'ok':
        report('route', f'the model refuses the script: {" ".join(mo)[:80]}', rp)
        return True
    m_ops = mo[1:1 + len(script['ops'])]
    rest = mo[1 + len(script['ops']):]
    # ---- the real file system, op by op
    last = {}                               # file name / 'buf' -> which of A / B / stale it should hold (for the opts)
    for k, (op, m) in enumerate(zip(script['ops'], m_ops)):
        what = f'op {k} {op} of {script["ops"]} ({LOADNAME[kind]})'
        if op[0] == 'w':
            with open(paths[op[1]], 'w', encoding='UTF-8', newline='') as fh:
                fh.write(STALE_TEXT)
            continue
        if op[0] == 'd':
            sink, name, which = op[1], op[2], op[3]
            fh = None
            if sink == 'ret':
                f = None
            elif sink == 'path':
                f = paths[name]
            elif sink == 'pathobj':
                f = Path(paths[name])
            elif sink == 'pathlike':
                f = FsPath(paths[name])
            elif sink == 'text':
                f = fh = open(paths[name], 'w', encoding='UTF-8', newline='')
            elif sink == 'binary':
                f = fh = open(paths[name], 'wb')
            else:
                f = buf
            try:
                ret = dump_call(cases[which], build_system(cases[which]['d']), f)
                got = ('r' + c07.hexs(ret if isinstance(ret, str) else next(x for x in ret if isinstance(x, str)))) if returns_content(ret) else 'n'
            except cm.InfraError:
                raise
            except Exception as e:  # noqa
                got = 'e:' + err_class(e)[4:]
            finally:
                if fh is not None:
                    fh.close()
            if sink == 'binary' and m == 'e:type' and got == 'e:type':
                # the file was opened (emptied) by the caller before the writer refused the stream
                pass
            if got != m:
                report('route', f'{what}: System.dump returns / raises {got[:40]!r}, the model {m[:40]!r}', rp)
            continue
        src, arg = op[1], op[2]
        if src in ('strtext', 'bytes', 'bytesio'):
            t = texts[arg]
            source = t if src == 'strtext' else t.encode('ascii') if src == 'bytes' else io.BytesIO(t.encode('ascii'))
        elif src == 'strname':
            source = paths[arg]
        elif src == 'pathobj':
            source = Path(paths[arg])
        elif src == 'other':
            source = FsPath(paths[arg])
        elif not os.path.isfile(paths[arg]):
            # a stream on a file the model says exists cannot even be opened
            report('route', f'{what}: file {arg!r} does not exist (the model: {m[:30]!r})', rp)
            continue
        elif src == 'bin':
            source = open(paths[arg], 'rb')
            inputs.open.append(source)
        else:
            source = open(paths[arg], encoding='UTF-8', newline='')
            inputs.open.append(source)
        # which content the model says is read decides the arguments (prop_info / box) that go with it
        if m.startswith('t'):
            mtext = c07.unhex(m[1:]) if len(m) > 1 else ''
            which = 'A' if mtext == texts['A'] else 'B' if mtext == texts['B'] else 'A'
            real = real_load(kind, source, opts[which], box=boxes[which] if kind == 'table' else None)
            want = real_load(kind, mtext, opts[which], box=boxes[which] if kind == 'table' else None) if mtext else None
            if want is None:
                continue                     # an empty file: whatever the loader makes of it
            if (real[0] == 'ok') != (want[0] == 'ok') or (real[0] != 'ok' and real[0] != want[0]):
                report('route', f'{what}: the loader gives {real[0]} ({real[1] if real[0] != "ok" else "a system"}), for the text the '
                                f'model reads from that source it gives {want[0]}', rp)
            elif real[0] == 'ok':
                df = same_system(want[1], real[1])
                if df is not None:
                    report('route', f'{what}: the loaded system is not the one in the text the model reads from that source: {df}', rp)
        else:
            real = real_load(kind, source, opts['A'], box=boxes['A'] if kind == 'table' else None)
            if real[0] != 'err:' + m[2:]:
                report('route', f'{what}: the loader gives {real[0]} ({real[1] if real[0] != "ok" else "a system"}), the model refuses with {m}', rp)
    # ---- the files and the stream afterwards
    mfiles = {}
    mbuf = ''
    sect = 0
    for t in rest:
        if t == '|':
            sect += 1
            continue
        n, _, hx = t.partition('=')
        if sect == 1:
            mfiles[n] = c07.unhex(hx) if hx != '-' else ''
        else:
            mbuf = c07.unhex(hx) if hx != '-' else ''
    for n, path in paths.items():
        real = None
        if os.path.isfile(path):
            with open(path, encoding='UTF-8', newline='') as fh:
                real = fh.read()
        if real != mfiles.get(n):
            def short(x):
                return 'no file' if x is None else f'{len(x)} characters starting {x[:24]!r}'
            report('route', f'after {script["ops"]} ({LOADNAME[kind]}) file {n!r} holds {short(real)}, in the model {short(mfiles.get(n))}', rp)
    if buf.getvalue() != mbuf:
        report('route', f'after {script["ops"]} ({LOADNAME[kind]}) the StringIO holds {len(buf.getvalue())} characters, in the model {len(mbuf)}', rp)
    return True


def correspond_routes(ctx, rng, n):
    inputs = Inputs()
    try:
        for i in range(n):
            script = gen_route_script(rng, i)
            ok = run_route_script(ctx, script, inputs, ctx.disagree)
            ctx.stats.case('route', repr((script['ops'], case_replay(script['case'])))[:3000], nontrivial=bool(ok), sample=None)
            for op in script['ops']:
                count(ctx, 'route_ops', ':'.join(op[:2]))
    finally:
        inputs.done()
        c07.ensure_wu(None)


def correspond_reshape(ctx, rng, n):
    np = _np()
    from atomman.tools import indexstr
    lines, info = [], []
    for _ in range(n):
        shape = tuple(rng.randint(1, 3) for _ in range(rng.randint(0, 3)))
        k = int(np.prod(shape)) if shape else 1
        if rng.random() < 0.15:
            k += rng.choice([-1, 1])
        vals = [rng.randint(-40, 40) / 8 for _ in range(max(k, 0))]
        lines.append(f"reshape {len(shape)}{''.join(f' {x}' for x in shape)} {len(vals)}{''.join(' ' + cm.fr(v) for v in vals)}")
        info.append((shape, vals))
    for (shape, vals), o in zip(info, ctx.driver.ask_many(lines)):
        ctx.stats.case('reshape', (shape, tuple(vals)))
        try:
            a = np.array(vals, dtype=float).reshape(shape)
            names = ['p' + istr for _ix, istr in indexstr(shape)]
            byidx = [float(a[ix]) for ix, _s in indexstr(shape)]
            want = ('ok ' + ' '.join(cm.fr(v) for v in a.ravel()) + ' | ' + ' '.join(names) + ' | ' + ' '.join(cm.fr(v) for v in byidx) + ' | 1')
        except ValueError:
            want = 'err:value'
        if o != want:
            ctx.disagree('reshape', f'reshape {shape} of {len(vals)} values: numpy/indexstr {want[:80]!r}, model {o[:80]!r}',
                         {'op': 'reshape', 'shape': list(shape), 'vals': vals})


def correspond(ctx):
    rng = ctx.rng
    plan = [('data', ctx.n(400, 6000)), ('dump', ctx.n(240, 3500)), ('table', ctx.n(120, 1800)), ('poscar', ctx.n(160, 2500))]
    cases = []
    for kind, n in plan:
        cases += [gen_case(rng, kind, i) for i in range(n)]
    cases += pinned_cases() + zoo_cases(rng)
    cases += sized_cases(random.Random(ctx.seed * 617 + 7), SIZES_TIE + ([4097] if ctx.thorough else []))
    for i in range(0, len(cases), 150):
        run_cases(ctx, cases[i:i + 150])
    run_malformed(ctx, rng, ctx.n(100, 1500))
    correspond_reshape(ctx, rng, ctx.n(150, 3000))
    correspond_routes(ctx, rng, ctx.n(120, 1500))


# ----------------------------------------------------------------------------------------
# search: the clauses of the property on the real code, loaded system vs original system
# ----------------------------------------------------------------------------------------

def wrapped_box(d):
    """System.wrap's box (exact): periodic directions unchanged, non-periodic ones enlarged by 0.001 beyond the atoms."""
    V, O, P = c07.fr_sys(d)
    S = [c07.rel_of(p, V, O) for p in P]
    mins, maxs = [Fraction(0)] * 3, [Fraction(1)] * 3
    for i in range(3):
        if not d['pbc'][i]:
            lo, hi = min(s[i] for s in S), max(s[i] for s in S)
            if lo <= 0:
                mins[i] = lo - Fraction(0.001)
            if hi >= 1:
                maxs[i] = hi + Fraction(0.001)
    origin = [O[j] + sum(mins[i] * V[i][j] for i in range(3)) for j in range(3)]
    vects = [[V[i][j] * (maxs[i] - mins[i]) for j in range(3)] for i in range(3)]
    return vects, origin


def quantum(ff, v):
    return c07.quantum_of(ff, v)


class Oracle:
    def __init__(self, report, key, rp, suffix=''):
        self.report = report
        self.key = key
        self.rp = rp
        self.suffix = suffix
        self.n = 0

    def fail(self, sub, msg):
        if self.n < 3:
            self.report(f'{self.key}:{sub}', msg + self.suffix, self.rp)
        self.n += 1


def check_loaded(c, s_loaded, extra, oc):
    """direct comparison of the loaded system with the original one (exact rationals of the doubles)."""
    np = _np()
    w = c['w']
    d = w['d']
    kind = c['kind']
    ff = w['ff']
    V, O, P = c07.fr_sys(d)
    n = len(P)
    M = Fraction(mag(d))
    L = real_sysdict(s_loaded)
    if L['natoms'] != n:
        oc.fail('natoms', f'{L["natoms"]} atoms loaded, {n} were dumped')
        return
    units = w.get('units', 'metal')
    lf = c07.oracle_factor(units, 'length') if kind != 'poscar' else Fraction(1)
    if lf == 'undefined':
        return
    lf = lf or Fraction(1)

    def ptol(want, fac=Fraction(1), k=1, mag=None):
        # a printed number: one unit of its last place (in file units) times the unit factor, plus float slack
        wv = abs(want) / fac
        base = wv if mag is None else max(wv, mag / fac)
        return k * quantum(ff, base) * fac + 512 * EPS * (M + abs(want))
    # ---- order of the atoms: by id (data / dump / table with ids); POSCAR groups by type
    if kind == 'poscar':
        order = [k for a in range(1, d['natypes'] + 1) for k in range(n) if d['atype'][k] == a]
    elif kind == 'dump' and 'atom_id' in d['props']:
        ids = [int(r[0]) for r in d['props']['atom_id'][2]]
        order = sorted(range(n), key=lambda k: ids[k])
    else:
        order = list(range(n))
    # ---- cell
    if kind == 'data':
        EV, EO = wrapped_box(d)
        if c07.near_discontinuity(d):
            EV = None
    elif kind == 'poscar':
        EV, EO = V, [Fraction(0)] * 3
    else:
        EV, EO = V, O
    if EV is not None:
        for i in range(3):
            for j in range(3):
                k = 4 if kind != 'poscar' else 4
                t = ptol(EV[i][j], lf, k, mag=M) if kind != 'poscar' else poscar_tol(ff, EV[i][j], F(w['scale']), M)
                if abs(FN(L['vects'][i][j]) - EV[i][j]) > t:
                    oc.fail('cell', f'cell vector [{i}][{j}]: loaded {float(L["vects"][i][j])!r}, dumped {float(EV[i][j])!r} '
                                    f'(allowed {float(t):.3g})')
            t = ptol(EO[i], lf, 4, mag=M)
            if abs(FN(L['origin'][i]) - EO[i]) > t:
                oc.fail('origin', f'origin[{i}]: loaded {float(L["origin"][i])!r}, expected {float(EO[i])!r}')
    # ---- pbc / symbols
    if kind == 'dump' and L['pbc'] != [bool(b) for b in d['pbc']]:
        oc.fail('pbc', f'periodic flags loaded {L["pbc"]}, dumped {d["pbc"]}')
    if kind == 'data' and L['pbc'] != [bool(b) for b in d['pbc']]:
        oc.fail('pbc', f'pbc argument {d["pbc"]} not kept: {L["pbc"]}')
    if kind == 'poscar':
        given = c['symbols_arg']
        if given is None:
            want_sym = list(w['symbols']) if w['symbols'] is not None else [None] * max(d['atype'])
            if L['symbols'] != want_sym:
                oc.fail('symbols', f'symbols loaded {L["symbols"]}, dumped {want_sym}')
    if kind in ('poscar', 'dump') and c['symbols_arg'] is not None:
        # symbols given to the loader are the symbols of the loaded system (one None per type beyond them)
        given = list(c['symbols_arg'])
        want_sym = given + [None] * (max(d['atype']) - len(given))
        if L['symbols'] != want_sym:
            oc.fail('symbols-arg', f'load(..., symbols={given}) gives symbols {L["symbols"]}, expected {want_sym}')
    # ---- atom types and positions
    at = np.asarray(L['props']['atype']).tolist()
    if at != [d['atype'][k] for k in order]:
        oc.fail('atype', f'atom types loaded {at}, dumped {[d["atype"][k] for k in order]}')
        return
    pos = L['props']['pos']
    skip_pos = False
    if kind == 'dump' and w['prop_names'] is not None and not any(p in w['prop_names'] for p in ('pos', 'spos', 'upos', 'supos')):
        skip_pos = True
    if kind == 'table' and not any(p == 'pos' for p, _u, _n in w['cols']):
        skip_pos = True
    if not skip_pos:
        scaled = (kind == 'dump' and w['prop_names'] is not None and [p for p in w['prop_names'] if p in ('pos', 'spos', 'upos', 'supos')][-1] in ('spos', 'supos')) \
            or (kind == 'table' and any(p == 'pos' and u == 'scaled' for p, u, _n in w['cols'])) \
            or (kind == 'poscar' and w['coordstyle'][:1] not in 'cCkK')
        pos_unit = next((u for p_, u, _n in w['cols'] if p_ == 'pos'), None) if kind == 'table' else None
        for row, k in enumerate(order):
            want = list(P[k])
            if kind == 'poscar' and scaled:
                want = [P[k][j] - O[j] for j in range(3)]
            for j in range(3):
                if kind == 'poscar':
                    if scaled:
                        # pos_j = sum_i s_i . (scale x row_ij): each printed relative coordinate carries its quantum qs
                        # (times a cell entry of size <= M), each cell entry the tolerance of a scaled printed number
                        # (times |s_i| <= smax)
                        srel = c07.rel_of(P[k], V, O)
                        smax = max(abs(x) for x in srel)
                        qs = quantum(ff, smax if ff[0] == 'e' else Fraction(1))
                        t = 3 * qs * M + 3 * (smax + 1) * poscar_tol(ff, M, F(w['scale']), M) + 512 * EPS * M * (smax + 1)
                    else:
                        t = poscar_tol(ff, want[j], F(w['scale']), M)
                elif scaled:
                    # pos = s . V' + O': printed relative coordinates (quantum qs) times the printed cell (quantum qb per
                    # number, up to four numbers per entry through the bounding-box inversion)
                    srel = c07.rel_of(P[k], V, O)
                    smax = max(abs(x) for x in srel)
                    qs = quantum(ff, smax if ff[0] == 'e' else Fraction(1))
                    qb = quantum(ff, M / lf) * lf
                    t = 3 * qs * 2 * M + (3 * smax + 1) * 4 * qb + 512 * EPS * M * (smax + 1)
                else:
                    # a table column is printed in the unit of that column (none: the stored number itself)
                    t = ptol(want[j], lf if kind != 'table' or pos_unit == 'length' else Fraction(1), 1)
                    if kind == 'data':
                        # wrapped coordinate printed, then flags x printed cell vectors added back
                        srel = c07.rel_of(P[k], V, O)
                        fl = sum(abs(math.floor(x)) for x in srel)
                        qb = quantum(ff, M / lf) * lf
                        t = quantum(ff, M / lf if ff[0] == 'e' else Fraction(1)) * lf * 2 + fl * 4 * qb + 512 * EPS * M * (fl + 1)
                if d.get('posform') == 'f32':
                    # positions stored as float32: unit conversion / scaling / relative coordinates are float32
                    # arithmetic in the writers (a few float32 ulps of the size of the system)
                    t += Fraction(1, 2 ** 20) * (M + abs(want[j]))
                if abs(FN(pos[row][j]) - want[j]) > t:
                    oc.fail('pos', f'position of atom {k} component {j}: loaded {float(pos[row][j])!r}, dumped '
                                   f'{float(want[j])!r} (allowed {float(t):.3g})')
    # ---- every carried per-atom property with its shape (compared exactly: () / (1,) / (1,1) are different shapes)
    carried = carried_props(c, extra)
    dts = d.get('dtypes') or {}
    for name, (kindu, shape) in carried.items():
        if name not in L['props']:
            oc.fail('prop-missing', f'per-atom property {name!r} was dumped but is not in the loaded system '
                                    f'({sorted(L["props"])})')
            continue
        a = L['props'][name]
        if tuple(a.shape) != (n,) + tuple(shape):
            oc.fail('prop-shape', f'property {name!r}: loaded array shape {tuple(a.shape)}, dumped {(n,) + tuple(shape)} '
                                  f'(per-atom shape {tuple(a.shape[1:])} instead of {tuple(shape)})')
            continue
        fac = Fraction(1)
        if kindu is not None and kindu != 'scaled':
            fac = c07.oracle_factor(units, kindu)
            if fac == 'undefined':
                continue
            fac = fac or Fraction(1)
        is_int = d['props'][name][0] if name in d['props'] else False
        want_cls = DT_CLASS.get(dts.get(name), 'i' if is_int else 'f') if kindu is None else 'f'
        got_cls = dtype_class(a)
        if got_cls == 'o':
            oc.fail('prop-dtype', f'property {name!r}: loaded as a {a.dtype} array ({a.ravel()[:3].tolist()}), dumped {want_cls!r}')
            continue
        if want_cls in 'ib' and got_cls != want_cls:
            # an integer / boolean property written without unit conversion is printed as integer / boolean tokens
            oc.fail('prop-dtype', f'property {name!r}: dumped with dtype class {want_cls!r} '
                                  f'({dts.get(name, "int64")}), loaded as {a.dtype}')
        flat = a.reshape(n, -1)
        for row, k in enumerate(order):
            for comp in range(flat.shape[1]):
                want = c07.prop_value(d, name, comp, k)
                if kindu == 'scaled':
                    # the printed relative coordinates (quantum qs each) times the cell handed to the loader
                    base = comp - comp % 3
                    trip = [c07.prop_value(d, name, base + j, k) for j in range(3)]
                    smax = max(abs(x) for x in c07.rel_of(trip, V, O))
                    qs = quantum(ff, smax if ff[0] == 'e' else Fraction(1))
                    t = 3 * qs * 2 * M + 512 * EPS * M * (smax + 1)
                elif is_int and kindu is None:
                    t = 0
                else:
                    t = ptol(want, fac)
                got = flat[row][comp]
                if abs((FX(got) if a.dtype.kind != 'f' else FN(got)) - want) > t:
                    oc.fail('prop', f'property {name!r} of atom {k} component {comp}: loaded {float(flat[row][comp])!r}, '
                                    f'dumped {float(want)!r} (allowed {float(t):.3g})')


def poscar_tol(ff, want, sc, M):
    """a written number want/scale and the written scale carry one print quantum each (the scale may be negative)."""
    a = abs(sc)
    wv = abs(want) / a
    return 2 * (quantum(ff, max(wv, M / a) if ff[0] == 'e' else wv) * a + wv * quantum(ff, a)) + 512 * EPS * (M + abs(want))


def carried_props(c, extra):
    """{property: (unit kind | None, shape)} the written file carries besides id / type / position."""
    w = c['w']
    d = w['d']
    out = {}
    if c['kind'] == 'data':
        fields = list(c07.layout_of(c07.LAYOUT, w['style']))
        if 'velocity' in d['props']:
            fields += c07.layout_of(c07.VEL_LAYOUT, w['style'])
        for _f, kindu, prop, _comp in fields:
            if prop in ('a_id', 'atype', 'pos') or prop not in d['props']:
                continue
            out[prop] = (kindu, tuple(d['props'][prop][1]))
    elif c['kind'] == 'dump':
        names = w['prop_names'] if w['prop_names'] is not None else list(d['props'])
        if 'atom_id' in d['props'] and (w['prop_names'] is None or 'atom_id' in w['prop_names']):
            out['atom_id'] = (None, ())          # the system's own atom ids are a per-atom property like any other
        for nm in names:
            if nm in ('atom_id', 'atype', 'pos', 'spos', 'upos', 'supos') or nm not in d['props']:
                continue
            kinds = {k for col, (k, p, _c) in c07.DUMPCOLS.items() if p == nm}
            shape = tuple(d['props'][nm][1])
            if not c['use_pi'] and len(shape) > 1:
                continue            # the dump format itself carries no shapes: needs the writer's prop_info
            if not c['use_pi'] and not kinds and len(shape) == 1:
                continue            # ... a non-standard column `name[0]` comes back as a scalar property of that name
            out[nm] = (next(iter(kinds)) if kinds else None, shape)
    elif c['kind'] == 'table':
        for prop, us, _names in w['cols']:
            if prop in ('a_id', 'atype', 'pos'):
                continue
            out[prop] = (None if us == 'none' else us, tuple(d['props'][prop][1]))
    return out


def same_system(a, b, ignore_symbols=False):
    np = _np()
    A, B = real_sysdict(a), real_sysdict(b)
    if ignore_symbols:          # a Masses section adds one (empty) symbol per listed type
        B = dict(B, symbols=A['symbols'])
    if A['natoms'] != B['natoms'] or A['pbc'] != B['pbc'] or A['symbols'] != B['symbols'] or A['order'] != B['order']:
        return 'natoms/pbc/symbols/property names differ'
    if not (np.array_equal(A['vects'], B['vects']) and np.array_equal(A['origin'], B['origin'])):
        return 'box differs'
    for nme in A['order']:
        if A['props'][nme].shape != B['props'][nme].shape or not np.array_equal(A['props'][nme], B['props'][nme]):
            a, b = A['props'][nme], B['props'][nme]
            k = 0
            if a.shape == b.shape and a.ndim:
                k = next((i for i in range(len(a)) if not np.array_equal(a[i], b[i])), 0)
            return f'property {nme!r} differs' + (f' from atom {k} on' if k else '') + f': {a.tolist()[k:k + 3]} vs {b.tolist()[k:k + 3]}'
    return None


LOADNAME = {'data': 'atom_data', 'dump': 'atom_dump', 'table': 'table', 'poscar': 'poscar'}


def layout_note(c):
    """what the file looks like, for the messages: atom_style and units of a data file, the column layout of a dump
    file / table when it was chosen by the caller."""
    w = c['w']
    if c['kind'] == 'data':
        return f" [atom_style {w['style']!r}, units {w['units']!r}]"
    if c['kind'] == 'dump' and w.get('prop_names') is not None:
        return f" [columns {' '.join(w['prop_names'])}; units {w['units']!r}]"
    if c['kind'] == 'table':
        return f" [columns {' '.join(n for _p, _u, names in w['cols'] for n in names)}]"
    return ''


def oracle_case(ctx, c0, report, inputs):
    c = under_wu(c0)                         # atomman's working units are those of the case from here on
    kind = c['kind']
    w = c['w']
    wr = write_case(w)
    ctx.stats.case('oracle:' + kind, repr(case_replay(c0))[:4000], nontrivial=wr[0] == 'ok', sample=None)
    count(ctx, 'working_units_oracle', wu_label(c.get('wu')))
    wus = '' if not c.get('wu') else f' [working units {c07.wu_key(c["wu"])}]'
    if wr[0] != 'ok':
        wf = ctx.extra.setdefault('writer_refused', {})
        wf[kind] = wf.get(kind, 0) + 1
        if kind == 'table' or c.get('must_write'):
            # a LAMMPS-normal cell, distinct ids, every named property present: there is nothing the writer may refuse,
            # and without a file nothing of the system can be loaded back
            report(f'{kind}:dump-raises', f"System.dump('{LOADNAME[kind]}') raises {wr[1]} for a system with per-atom "
                                          f"properties {[(n, tuple(p[1]), (w['d'].get('dtypes') or {}).get(n)) for n, p in w['d']['props'].items()]}{wus}",
                   {'op': 'case', 'case': case_replay(c0), 'text': ''})
        return
    text0, extra, s = wr[1], wr[2], wr[3]
    count_shapes(ctx, c, 'oracle')
    if kind != 'poscar' and kind != 'table' and c07.unresolved(w, text0):
        return
    text = transformed_text(c, text0)
    opts = load_opts(c, extra)
    rp = {'op': 'case', 'case': case_replay(c0), 'text': text}
    box = s.box if kind == 'table' else None
    if kind == 'data' and c.get('style_arg') == 'other':
        # the file names its atom_style in the Atoms comment: a different atom_style argument is refused (ValueError,
        # documented), never loaded with the columns of either style
        bad = real_load(kind, text0, opts, box=box)
        if bad[0] != 'err:value':
            got = 'returns a system' if bad[0] == 'ok' else f'raises {bad[1]}'
            report('data:style-refusal', f"am.load('atom_data', text, atom_style={opts['style_arg']!r}) of a file whose Atoms "
                                         f"line says {w['style']!r} {got}; the documented ValueError is expected{wus}", rp)
        c = dict(c, style_arg='given')       # the rest of the case names the style of the file
        opts = load_opts(c, extra)
    snap = snapshot_args(opts, s) if c.get('alias') else None
    plain = real_load(kind, text0, opts, box=box)
    what = f"am.load('{LOADNAME[kind]}', System.dump('{LOADNAME[kind]}')){wus}"
    if plain[0] != 'ok':
        if loadable(c):
            report(f'{kind}:raises', f'{what} raises {plain[1]} for a file atomman wrote itself ({describe(c)})', rp)
        return
    oc = Oracle(report, kind, rp, wus + layout_note(c))
    check_loaded(c, plain[1], extra, oc)
    # the same file with its atom lines reordered / comments, blank lines, white space added, through every input mode
    if text != text0 or c['mode'] != 'str':
        vopts = opts
        if kind == 'data' and 'nohint' in c['ops']:
            vopts = dict(opts, style_arg=w['style'])          # without the comment the style has to be named
        src = inputs.make(text, c['mode'])
        other = real_load(kind, src, vopts, box=box)
        if other[0] != 'ok':
            report(f'{kind}:variant-raises', f'{what}: the file loads, but not after {c["ops"]} given as {c["mode"]}: {other[1]}', rp)
        else:
            if kind == 'data' and 'masses' in c['ops']:
                want_m = masses_in(text)
                got_m = [None if m is None else float(m) for m in other[1].masses]
                if want_m is not None and got_m != want_m:
                    report('data:masses', f'{what}: the Masses section lists {want_m} (by atom type), the loaded system '
                                          f'has masses {got_m}', rp)
            df = same_system(plain[1], other[1], ignore_symbols='masses' in c['ops'])
            if df is not None:
                report(f'{kind}:variant', f'{what}: loading depends on line order / comments / blank lines / input mode '
                                          f'({c["ops"]}, given as {c["mode"]}): {df}{layout_note(c)}', rp)
            if c['mode'] in ('stream', 'file'):
                # the same stream object handed over a second time (rewound by the caller)
                try:
                    src.seek(0)
                    again = real_load(kind, src, vopts, box=box)
                except ValueError as e:               # the loader closed the caller's stream
                    again = ('err:value', f'{type(e).__name__}: {e}')
                df = 'raises ' + again[1] if again[0] != 'ok' else same_system(other[1], again[1])
                if df is not None:
                    report(f'{kind}:stream-twice', f'{what}: the same open stream, rewound and loaded a second time: {df}', rp)
    if c.get('crlf'):
        # the same file with CR LF line ends (written on another system), and with a non-ASCII comment where the
        # format has room for one (the POSCAR comment line, a comment line of a data file), as str and as bytes
        uni = None
        if kind == 'poscar':
            uni = '\n'.join(['Fe\u2013Ni \u03b1 cell, 3.5 \u00c5'] + text0.split('\n')[1:])
        elif kind == 'data':
            uni = '\n'.join(text0.split('\n')[:1] + ['# cell in \u00e5ngstr\u00f6m'] + text0.split('\n')[1:])
        for name, tt in (('CR LF line ends (str)', text0.replace('\n', '\r\n')),
                         ('CR LF line ends (bytes)', text0.replace('\n', '\r\n').encode('ascii')),
                         ('a non-ASCII comment (str)', uni), ('a non-ASCII comment (UTF-8 bytes)', None if uni is None else uni.encode('utf-8'))):
            if tt is None:
                continue
            other = real_load(kind, tt, opts, box=box)
            df = 'raises ' + other[1] if other[0] != 'ok' else same_system(plain[1], other[1])
            if df is not None:
                report(f'{kind}:line-ends', f'{what}: the same file with {name}: {df}', rp)
    if c.get('sink'):
        check_route(ctx, c, text0, opts, box, plain[1], report, rp, inputs, wus)
    if c.get('alias'):
        check_aliasing(c, text0, opts, s, snap, plain[1], report, rp, what)
    if c.get('argform'):
        check_argforms(c, text0, opts, s, plain[1], report, rp, what)
    if c.get('redump'):
        check_redump(c, s, report, rp, wus)


def snapshot_args(opts, s):
    import copy
    return {'opts': copy.deepcopy({k: v for k, v in opts.items()}), 'system': copy.deepcopy(real_sysdict(s))}


def dict_equal(a, b):
    """deep equality of what real_sysdict gives (arrays bit for bit, dtype and shape included)."""
    np = _np()
    if a.keys() != b.keys():
        return False
    for k in a:
        x, y = a[k], b[k]
        if isinstance(x, dict):
            if not isinstance(y, dict) or not dict_equal(x, y):
                return False
        elif isinstance(x, np.ndarray):
            if not isinstance(y, np.ndarray) or x.dtype != y.dtype or x.shape != y.shape or not np.array_equal(x, y, equal_nan=x.dtype.kind == 'f'):
                return False
        elif x != y:
            return False
    return True


def check_aliasing(c, text0, opts, s, snap, first, report, rp, what):
    """arguments are not modified; the dumped system is not modified; every load returns fresh arrays."""
    np = _np()
    kind = c['kind']
    box = s.box if kind == 'table' else None
    for k, v in snap['opts'].items():
        if opts.get(k) != v:
            report(f'{kind}:argument-modified', f'{what}: the loader changed its argument {k!r} from {v!r} to {opts.get(k)!r}', rp)
            return
    if not dict_equal(snap['system'], real_sysdict(s)):
        report(f'{kind}:system-modified', f'{what}: dumping / loading modified the system that was dumped', rp)
        return
    keep = real_sysdict(first)
    keep = dict(keep, props={n: a.copy() for n, a in keep['props'].items()}, vects=keep['vects'].copy(), origin=keep['origin'].copy())
    second = real_load(kind, text0, opts, box=box)
    if second[0] != 'ok':
        report(f'{kind}:second-load', f'{what}: a second load of the same text raises {second[1]}', rp)
        return
    for name in first.atoms_prop():
        a, b = first.atoms.view[name], second[1].atoms.view[name]
        if np.shares_memory(a, b):
            report(f'{kind}:shared-result', f'{what}: two loads of the same text return systems whose {name!r} arrays share memory', rp)
            return
    # scribble over the second result: the first one must not notice, and a third load must not either
    for name in second[1].atoms_prop():
        a = second[1].atoms.view[name]
        if a.dtype.kind in 'fiu' and name != 'atype' and a.flags.writeable:
            a[...] = 7
    if not dict_equal(keep, real_sysdict(first)):
        report(f'{kind}:shared-result', f'{what}: writing into the arrays of a second loaded system changed the first one', rp)
        return
    third = real_load(kind, text0, opts, box=box)
    df = 'raises ' + third[1] if third[0] != 'ok' else (None if dict_equal(keep, real_sysdict(third[1])) else 'differs from the first load')
    if df is not None:
        report(f'{kind}:shared-result', f'{what}: a load after the arrays of an earlier result were overwritten {df}', rp)


def check_redump(c, s, report, rp, wus):
    """hidden state on the system object: the system that was just dumped is edited IN PLACE (first atom moved by a
    quarter of the first cell vector, first row of every other carried property changed) and dumped and loaded again;
    the second file must carry the edited values."""
    import copy
    np = _np()
    w = c['w']
    d2 = copy.deepcopy(w['d'])
    pos = s.atoms.pos
    if not pos.flags.writeable:
        return
    pos[0] = pos[0] + 0.25 * np.asarray(w['d']['vects'][0], dtype=float)
    d2['pos'][0] = [float(x) for x in s.atoms.pos[0]]
    for name, (is_int, shape, arr) in w['d']['props'].items():
        if name == 'atom_id':
            continue
        a = s.atoms.view[name]
        if not a.flags.writeable:
            continue
        if a.dtype.kind == 'b':
            a[0] = ~a[0]
        elif a.dtype.kind == 'u':
            a[0] = (a[0] + 1) % 200
        elif a.dtype.kind == 'i':
            a[0] = a[0] - 1 if name != 'm_id' else a[0] + 1
        else:
            a[0] = a[0] * 0.5 + 0.75
        row = np.asarray(s.atoms.view[name][0]).reshape(-1)
        rows = [list(r) for r in arr]
        rows[0] = [(int(x) if a.dtype.kind in 'biu' else float(x)) for x in row]
        d2['props'][name] = (is_int, shape, rows)
    w2 = dict(w, d=d2)
    c2 = dict(c, w=w2)
    kind = c['kind']
    what = f"System.dump('{LOADNAME[kind]}') of a system edited in place after an earlier dump, then load{wus}"
    try:
        r = dump_call(w2, s)
    except Exception as e:  # noqa
        report(f'{kind}:redump-raises', f'{what}: the second dump raises {type(e).__name__}: {e}', rp)
        return
    text2, extra2 = (r[0], r[1]) if kind in ('dump', 'table') else (r, None)
    if kind not in ('poscar', 'table') and c07.unresolved(w2, text2):
        return
    back = real_load(kind, text2, load_opts(c2, extra2), box=s.box if kind == 'table' else None)
    if back[0] != 'ok':
        report(f'{kind}:redump-raises', f'{what}: the load raises {back[1]}', rp)
        return
    check_loaded(c2, back[1], extra2, Oracle(report, kind + ':redump', rp, ' (second dump of the same system object, edited '
                                                                           'in place in between)' + wus))


def check_argforms(c, text0, opts, s, first, report, rp, what):
    """the other ways of giving the same arguments: positional, defaults left out, tuples / numpy values instead of
    lists, the column table as separate lists instead of prop_info, the prop_info a dump-file load returns, loading
    into an existing system; each must give the system the plain call gives, bit for bit."""
    import atomman as am
    np = _np()
    kind = c['kind']
    w = c['w']
    variants = []
    if kind == 'data':
        kw = {}
        if opts.get('style_arg') is not None:
            kw['atom_style'] = opts['style_arg']
        sym = opts.get('symbols')
        variants.append(('positional arguments', lambda: am.load('atom_data', text0, tuple(opts['pbc']), None if sym is None else tuple(sym),
                                                                   opts.get('style_arg'), opts['units'])))
        variants.append(('pbc as a numpy bool array', lambda: am.load('atom_data', text0, pbc=np.array(opts['pbc'], dtype=bool),
                                                                        symbols=sym, units=opts['units'], **kw)))
        if opts['units'] == 'metal':
            variants.append(('units left at its default', lambda: am.load('atom_data', text0, pbc=list(opts['pbc']), symbols=sym, **kw)))

        def inplace():
            # the writer's default safecopy=False wraps the system it is given in place (documented) and writes the
            # same file: dumped from a fresh copy of the system, loaded like the plain one
            kw2 = {} if w.get('natypes') is None else {'natypes': w['natypes']}
            t = build_system(w['d']).dump('atom_data', atom_style=w['style'], units=w['units'], float_format=c07.fmt_py(w['ff']),
                                          return_info=False, **kw2)
            return am.load('atom_data', t, pbc=list(opts['pbc']), symbols=sym, units=opts['units'], **kw)
        variants.append(('the file written with the default safecopy=False', inplace))
    elif kind in ('dump', 'table'):
        pi = opts.get('pi')
        lists = None
        if pi is not None:
            lists = {'prop_name': [p_['prop_name'] for p_ in pi], 'table_name': [list(p_['table_name']) for p_ in pi],
                     'shape': [p_['shape'] for p_ in pi], 'unit': [p_['unit'] for p_ in pi], 'dtype': [p_['dtype'] for p_ in pi]}
        if kind == 'table':
            hd = 0 if opts['header'] else None
            variants.append(('prop_name / table_name / shape / unit / dtype lists instead of prop_info',
                             lambda: am.load('table', text0, box=s.box, header=hd, **lists)))
            variants.append(('positional box, prop_info as tuple of dicts',
                             lambda: am.load('table', text0, s.box, prop_info=list(pi), header=hd)))

            def into():
                old = am.System(atoms=am.Atoms(natoms=len(w['d']['atype'])), box=s.box)
                for p_ in pi:
                    if p_['prop_name'] not in ('a_id', 'atype', 'pos'):
                        old.atoms.view[p_['prop_name']] = np.full((old.natoms,) + tuple(p_['shape']), 3.25)
                return am.load('table', text0, box=s.box, system=old, prop_info=pi, header=hd)
            variants.append(('system= an existing system that holds other values of the same properties', into))
        else:
            sym = opts.get('symbols')
            if lists is not None:
                variants.append(('prop_name / table_name / shape / unit / dtype lists instead of prop_info',
                                 lambda: am.load('atom_dump', text0, symbols=sym, lammps_units=opts['units'], **lists)))
            kw = {} if pi is None else {'prop_info': pi}

            def returned():
                first_, pi2 = am.load('atom_dump', text0, symbols=sym, lammps_units=opts['units'], return_prop_info=True, **kw)
                return am.load('atom_dump', text0, symbols=sym, lammps_units=opts['units'], prop_info=pi2)
            variants.append(('the prop_info that load(return_prop_info=True) returns', returned))

            def truthy(flag):
                # a flag that is true without being the object True: the documented pair (system, prop_info) comes back
                res = am.load('atom_dump', text0, symbols=sym, lammps_units=opts['units'], return_prop_info=flag, **kw)
                if not (isinstance(res, tuple) and len(res) == 2):
                    raise TypeError(f'return_prop_info={flag!r} returned a {type(res).__name__}, not the pair (system, prop_info)')
                return res[0]
            variants.append(('return_prop_info=1', lambda: truthy(1)))
            variants.append(('return_prop_info=numpy.True_', lambda: truthy(np.True_)))
            if opts['units'] == 'metal':
                variants.append(('lammps_units left at its default', lambda: am.load('atom_dump', text0, symbols=sym, **kw)))
            variants.append(('positional arguments', lambda: am.load('atom_dump', text0, None if sym is None else tuple(sym), opts['units'], **kw)))
    else:
        sym = opts.get('symbols')
        variants.append(('symbols positional, as a tuple', lambda: am.load('poscar', text0, None if sym is None else tuple(sym))))
        variants.append(('prop= an empty dict', lambda: am.load('poscar', text0, symbols=sym, prop={})))
    for name, call in variants:
        try:
            other = call()
            real_sysdict(other)
        except Exception as e:  # noqa
            report(f'{kind}:argument-form', f'{what} loads, but with {name} it raises {type(e).__name__}: {e}', rp)
            continue
        df = same_system(first, other)
        if df is not None:
            report(f'{kind}:argument-form', f'{what}: with {name} the loaded system differs: {df}', rp)


def check_route(ctx, c, text0, opts, box, plain_sys, report, rp, inputs, wus):
    """the round trip through every way of naming the target of the dump and then the source of the load."""
    kind = c['kind']
    sink, prior = c['sink'], c.get('prior')
    def earlier(r):
        if sink != 'binary':
            real_load(kind, source_of(sink, r, inputs), opts, box=box)
    res = dump_through(c['w'], sink, prior, inputs, between=earlier)
    count(ctx, 'output_routes', f'{sink}:{prior or "new"}')
    form = {'path': 'a str file name', 'pathobj': 'a pathlib.Path', 'pathlike': 'an os.PathLike object', 'text': 'an open text file',
            'stringio': 'an io.StringIO', 'binary': 'an open binary file'}[sink]
    pre = {None: '', 'bigger': ' that already holds an earlier dump of a bigger system', 'text': ' that already holds some text'}[prior]
    what = f"System.dump('{LOADNAME[kind]}', f={form}{pre}){wus}"
    if res['error'] is not None:
        if sink == 'binary':
            count(ctx, 'output_routes', 'binary:refused')      # the writers write str: a binary stream is refused
            return
        report(f'{kind}:route-raises', f'{what} raises {type(res["error"]).__name__}: {res["error"]}', rp)
        return
    want = res['prefix'] + text0
    got = res['content']
    if got != want:
        if got is None:
            how = 'no file was written'
        elif sink != 'stringio' and prior is not None and got != '' and text0 not in got:
            how = f'the target still holds its earlier content ({len(got)} characters)'
        else:
            k = next((i for i, (a, b) in enumerate(zip(got, want)) if a != b), min(len(got), len(want)))
            how = (f'the target holds {len(got)} characters instead of {len(want)}, first difference at character {k}: '
                   f'{got[k:k + 30]!r} vs {want[k:k + 30]!r}')
        if returns_content(res['ret']):
            how += '; the call returned the content as if no target had been given'
        report(f'{kind}:route-content', f'{what}: {how}', rp)
    if got is None:
        return
    src = source_of(sink, res, inputs)
    back = real_load(kind, src, opts, box=box)
    if back[0] != 'ok':
        report(f'{kind}:route-load', f'{what}, then load from that target: raises {back[1]}', rp)
        return
    df = same_system(plain_sys, back[1])
    if df is not None:
        report(f'{kind}:route-load', f'{what}, then load from that target: not the system that was dumped '
                                     f'({back[1].natoms} atoms loaded, {plain_sys.natoms} dumped): {df}', rp)


def masses_in(text):
    """the per-type masses a data file lists in its Masses section (read independently of the loader; the loader
    takes them as they stand, without unit conversion): [mass of type 1, mass of type 2, ...] or None."""
    lines = [l.split('#')[0].split() for l in text.split('\n')]
    nt = [int(t[0]) for t in lines if t[1:] == ['atom', 'types']]
    at = [i for i, t in enumerate(lines) if t == ['Masses']]
    if len(nt) != 1 or len(at) != 1:
        return None
    rows = [t for t in lines[at[0] + 1:] if t][:nt[0]]
    out = [None] * nt[0]
    for t in rows:
        if len(t) != 2 or not t[0].isdigit() or not 1 <= int(t[0]) <= nt[0]:
            return None
        out[int(t[0]) - 1] = float(t[1])
    return out


def loadable(c):
    w = c['w']
    if c['kind'] == 'data' and c['style_arg'] == 'none' and 'nohint' in c['ops'] and w['style'] != 'atomic':
        return False
    return True


def describe(c):
    w = c['w']
    return ', '.join(f'{k}={w[k]!r}' for k in ('style', 'units', 'ff', 'coordstyle', 'scale', 'prop_names') if k in w)


def oracle_malformed(ctx, rng, n, report, inputs):
    from atomman.load import FileFormatError  # noqa
    for i in range(n):
        w = gen_data_case(rng, i)
        w['fname'] = None
        wr = write_case(w)
        if wr[0] != 'ok':
            continue
        what = MALFORMS[i % 7]          # the missing-section kinds
        text = malform(wr[1], what, rng)
        mode = rng.choice(MODES)
        opts = {'pbc': list(w['d']['pbc']), 'units': w['units'], 'style_arg': w['style'], 'symbols': None}
        real = real_load('data', inputs.make(text, mode), opts)
        ctx.stats.case('oracle:malformed', (what, text), sample=None)
        if real[0] != 'err:format':
            report('data:missing-section', f"load('atom_data') of a data file with {what} gives "
                                           f"{real[1] if real[0] != 'ok' else 'a system'} instead of FileFormatError",
                   {'op': 'malformed', 'what': what, 'text': text, 'opts': opts})


def search(ctx, broken):
    rng = random.Random(ctx.seed * 7919 + 23)
    mult = 3 if broken else 1
    plan = [('data', ctx.n(350, 5000) * mult), ('dump', ctx.n(200, 3000) * mult), ('table', ctx.n(100, 1500) * mult),
            ('poscar', ctx.n(140, 2000) * mult)]
    inputs = Inputs()
    try:
        base = []
        k = 0
        # every plain style, the simple hybrids and every hybrid of two sub-styles that share a unit-bearing column, each
        # under every LAMMPS unit style (a column converted twice shows wherever its unit factor is not 1)
        for st in c07.ALL_STYLES + c07.HYBRIDS + c07.SHARED_HYBRIDS:
            for un in c07.UNIT_STYLES:
                c = gen_case(rng, 'data', k)
                k += 1
                w = c['w']
                w['style'], w['units'] = st, un
                w['ff'] = pick_format(rng, un)
                w['d'] = gen_desc(rng, w['d']['regime'], c07.needed_props(st, k % 2 == 0))
                w['natypes'] = None
                c['symbols_arg'] = None
                base.append(c)
        for un in c07.UNIT_STYLES:
            for use_pi in (False, True):
                c = gen_case(rng, 'dump', 0)
                c['w']['units'] = un
                c['w']['ff'] = pick_format(rng, un)
                c['use_pi'] = use_pi
                base.append(c)
        cases = base + pinned_cases() + zoo_cases(rng)
        cases += sized_cases(random.Random(ctx.seed * 613 + 5), SIZES_QUICK + (SIZES_THOROUGH if ctx.thorough else SIZES_THOROUGH[:4] if broken else []))
        for kind, n in plan:
            cases += [gen_case(rng, kind, i) for i in range(n)]
        for c in cases:
            oracle_case(ctx, c, ctx.violate, inputs)
        c07.ensure_wu(None)
        oracle_malformed(ctx, rng, ctx.n(70, 1400) * mult, ctx.violate, inputs)
    finally:
        inputs.done()
        c07.ensure_wu(None)


def zoo_cases(rng):
    """table and dump-file round trips of one property per (per-atom shape, dtype class), the degenerate shapes
    (1,), (1,1), (1,1,1), (1,3), (3,1) included: every shape x {float, int, bool} plus one of the storage variants;
    box-relative ("scaled") and unit-carrying table columns for the shapes that admit them."""
    todo = [(kind, shape, dt, None) for kind in ('table', 'dump') for si, shape in enumerate(ZOO_SHAPES)
            for dt in ZOO_DTYPES[:3] + [ZOO_DTYPES[3 + (si + (kind == 'dump')) % 4]]]
    todo += [('table', shape, 'float', 'scaled') for shape in ((3,), (1, 3), (3, 3)) for _ in range(2)]
    todo += [('table', (1,), 'float', 'length'), ('table', (1, 1), 'int', 'force'), ('table', (3, 1), 'float', 'velocity'),
             ('table', (), 'int', 'charge')]
    out = []
    for j, (kind, shape, dt, force_us) in enumerate(todo):
        d = gen_desc(rng, 'grid' if j % 2 else 'generic', [], nmax=5)
        main = add_zoo_prop(rng, d, shape, dt)
        names = [main]
        if rng.random() < 0.5:      # a neighbour, so that the column groups have to be kept apart
            names.insert(rng.randint(0, 1), add_zoo_prop(rng, d, *pick_zoo(rng)))
        if kind == 'table':
            units = rng.choice(['metal', 'real', 'si', 'nano'])
            cols = [('atype', 'none', ['type']), ('pos', rng.choice(['length', 'scaled', 'none']), ['x', 'y', 'z'])]
            cols += [table_col_for(rng, d, nm, force_us=force_us if nm == main else None) for nm in names]
            if rng.random() < 0.5:
                cols.insert(0, ('a_id', 'none', ['id']))
            cols = permute_columns(cols, 'a_id', p=0.4)
            w = {'kind': 'table', 'd': d, 'units': units, 'ff': pick_format(rng, units), 'cols': cols,
                 'header': rng.random() < 0.5}
        else:
            units = 'metal' if rng.random() < 0.5 else rng.choice(c07.UNIT_STYLES)
            pn = None
            if rng.random() < 0.3:
                pn = permute_columns(['atom_id', 'atype', rng.choice(['pos', 'spos', 'upos'])] + names, 'atom_id', p=0.4)
            w = {'kind': 'dump', 'd': d, 'units': units, 'ff': pick_format(rng, units), 'prop_names': pn}
        out.append({'kind': kind, 'w': w, 'mode': rng.choice(MODES), 'ops': pick_ops(rng, kind),
                    'tseed': rng.randrange(1 << 30), 'symbols_arg': None, 'style_arg': None, 'use_pi': True,
                    'must_write': True})
    return out


def count_shapes(ctx, c, where):
    """coverage: how often each (per-atom shape, dtype) went through a round trip, per format."""
    d = c['w']['d']
    if c['kind'] not in ('table', 'dump'):
        return
    if c['kind'] == 'table':
        names = [p for p, _u, _n in c['w']['cols'] if p in d['props']]
    else:
        names = [p for p in (c['w']['prop_names'] if c['w']['prop_names'] is not None else d['props']) if p in d['props']]
    cov = ctx.extra.setdefault('prop_shapes_' + where, {}).setdefault(c['kind'] + (':no-prop_info' if not c['use_pi'] else ''), {})
    for nm in names:
        key = f"{tuple(d['props'][nm][1])}:{(d.get('dtypes') or {}).get(nm, 'int' if d['props'][nm][0] else 'float')}"
        cov[key] = cov.get(key, 0) + 1
    if c['kind'] == 'table':
        ucov = ctx.extra.setdefault('table_units_' + where, {})
        for pn, us, _n in c['w']['cols']:
            if pn in d['props']:
                key = f"{us}:{tuple(d['props'][pn][1])}"
                ucov[key] = ucov.get(key, 0) + 1


# systems of a given SIZE (n = 2^k + 1, a round number + 1): fast paths / block-wise reading / sorting shortcuts of the
# loaders switch on at a number of rows; the atom lines are never in id order and the id is rarely the leading column
SIZES_QUICK = [1025, 2049, 4097, 10001]
SIZES_THOROUGH = [1023, 1024, 8193, 16385, 20001, 32769, 65537]
SIZES_TIE = [1025, 2049]


def sized_case(rng, kind, n):
    seed = rng.randint(1, 10 ** 6)
    spec = {'n': n, 'seed': seed, 'props': [], 'ntypes': rng.randint(1, 3), 'jitter': rng.random() < 0.5,
            'out_from': rng.choice([0, n - 1, n // 2, min(1024, n - 1)])}
    ff = rng.choice(['f13', 'f8', 'e13', 'e8'])
    if kind == 'data':
        style = rng.choice(['atomic', 'charge', 'molecular', 'hybrid charge sphere'])
        spec['props'] = [p[0] for p in c07.needed_props(style, rng.random() < 0.4)]
        w = {'kind': 'data', 'style': style, 'units': rng.choice(['metal', 'real']), 'ff': ff, 'natypes': None, 'fname': None}
    elif kind == 'dump':
        spec['props'] = [p for p in ('velocity', 'charge') if rng.random() < 0.5]
        spec['ids'] = rng.choice([None, 'reversed', 'odd'])
        pn = ['atom_id', 'atype'] + rng.sample(['pos', 'spos', 'upos', 'supos'], rng.randint(1, 2)) + spec['props']
        w = {'kind': 'dump', 'units': rng.choice(['metal', 'real']), 'ff': ff, 'prop_names': permute_columns(pn, 'atom_id', p=0.8)}
    elif kind == 'poscar':
        w = {'kind': 'poscar', 'coordstyle': rng.choice(['direct', 'cartesian']), 'scale': rng.choice([1.0, 2.0, 0.5]),
             'scale_form': 'float', 'symbols': None, 'header': 'sized', 'ff': rng.choice(['e13', 'f13', 'f8']), 'negate': False}
    else:
        spec['props'] = [p for p in ('velocity', 'charge', 'm_id') if rng.random() < 0.5]
        w = {'kind': 'table', 'units': 'metal', 'ff': ff, 'header': rng.random() < 0.5}
    w['sized'] = spec
    w['d'] = c07.sized_desc(spec)
    if kind == 'data':
        for name in list(w['d']['props']):
            if name not in spec['props']:
                w['d']['props'].pop(name)
        for name, is_int, nc in c07.needed_props(w['style'], 'velocity' in spec['props']):
            if name not in w['d']['props']:       # (columns sized_desc does not know: diameter, density ...)
                n_ = len(w['d']['atype'])
                w['d']['props'][name] = (bool(is_int), () if nc == 1 else (nc,),
                                         [[((7 * k + 3 * j) % 64 + 1) / 16 if not is_int else (k % 9) + 1 for j in range(nc)] for k in range(n_)])
    if kind == 'table':
        cols = [('a_id', 'none', ['id']), ('atype', 'none', ['type']), ('pos', rng.choice(['length', 'scaled', 'none']), ['x', 'y', 'z'])]
        kinds = {'velocity': 'velocity', 'charge': 'charge'}
        for name, (_ii, shape, _a) in w['d']['props'].items():
            cols.append((name, kinds.get(name, 'none'), [name] if not shape else [f'{name}[{a}]' for a in range(3)]))
        w['cols'] = permute_columns(cols, 'a_id', p=0.8)
    ops = [] if kind == 'poscar' else [rng.choice(['shuffle', 'shuffle', 'reverse', 'swapmid'])] + (['inject'] if rng.random() < 0.3 else [])
    return {'kind': kind, 'w': w, 'mode': rng.choice(MODES), 'ops': ops, 'tseed': rng.randrange(1 << 30), 'symbols_arg': None,
            'style_arg': 'given' if kind == 'data' and rng.random() < 0.4 else None, 'use_pi': rng.random() < 0.7, 'wu': None,
            'must_write': True}


def sized_cases(rng, sizes):
    """one loader per size, taken in turn (every loader within one run as soon as there are four sizes)."""
    kinds = ['dump', 'table', 'data', 'poscar']
    j = rng.randrange(4)
    return [sized_case(rng, kinds[(j + i) % 4], n) for i, n in enumerate(sizes)]


def pinned_cases():
    """simple systems that exposed loader defects before."""
    def desc(props=(), pbc=(True, True, True), vects=None, origin=(0.0, 0.0, 0.0), pos=None):
        vects = vects or [[4.0, 0.0, 0.0], [0.0, 8.0, 0.0], [0.0, 0.0, 2.0]]
        pos = pos or [[0.5, 1.25, 1.0], [5.25, 3.5, 0.125], [3.0, -7.5, 1.5]]
        d = {'pbc': list(pbc), 'vects': vects, 'origin': list(origin), 'atype': [1, 2, 1], 'natypes': 2,
             'pos': pos, 'props': {}, 'symbols': None, 'regime': 'grid'}
        for name, is_int, nc in props:
            d['props'][name] = (bool(is_int), () if nc == 1 else (nc,),
                                [[(k + 1) * (0.5 if not is_int else 1) + c for c in range(nc)] for k in range(3)])
        return d

    def case(kind, w, **kw):
        c = {'kind': kind, 'w': w, 'mode': 'str', 'ops': [], 'tseed': 1, 'symbols_arg': None, 'style_arg': None, 'use_pi': True}
        c.update(kw)
        return c
    out = []
    # atoms outside the cell (non-zero image flags), atom lines in reverse order, every input mode
    for mode in ('str', 'stream', 'file', 'path', 'pathobj'):
        out.append(case('data', {'kind': 'data', 'd': desc(), 'style': 'atomic', 'units': 'metal', 'ff': 'f13', 'natypes': None,
                                 'fname': None}, ops=['reverse'], mode=mode))
        out.append(case('dump', {'kind': 'dump', 'd': desc(), 'units': 'metal', 'ff': 'f13', 'prop_names': None},
                        ops=['reverse'], mode=mode))
    # hybrid style in non-metal units; lj dump files; scaled columns with the returned prop_info
    for un in ('si', 'nano', 'lj'):
        out.append(case('data', {'kind': 'data', 'd': desc(c07.needed_props('hybrid charge', True)), 'style': 'hybrid charge',
                                 'units': un, 'ff': pick_format(random.Random(0), un), 'natypes': None, 'fname': None}))
        out.append(case('dump', {'kind': 'dump', 'd': desc([('velocity', 0, 3)]), 'units': un,
                                 'ff': pick_format(random.Random(0), un), 'prop_names': None}, use_pi=False))
    out.append(case('dump', {'kind': 'dump', 'd': desc([('velocity', 0, 3)]), 'units': 'metal', 'ff': 'f13',
                             'prop_names': ['atom_id', 'atype', 'spos', 'velocity']}, use_pi=True))
    out.append(case('table', {'kind': 'table', 'd': desc([('velocity', 0, 3)]), 'units': 'metal', 'ff': 'f13',
                              'cols': [('a_id', 'none', ['id']), ('atype', 'none', ['type']), ('pos', 'scaled', ['x', 'y', 'z']),
                                       ('velocity', 'velocity', ['vx', 'vy', 'vz'])], 'header': True}, ops=['reverse']))
    # column layouts in which the id is not the leading column (LAMMPS `dump custom type id x y z`, `... x y z id`) crossed
    # with atom lines that are not in id order: reversed, shuffled, and a system whose own ids are out of order
    ids = desc([('velocity', 0, 3)])
    ids['props'] = dict([('atom_id', (True, (), [[7], [2], [5]]))] + list(ids['props'].items()))
    for li, layout in enumerate((['atype', 'atom_id', 'pos'], ['pos', 'atype', 'atom_id'], ['atype', 'pos', 'velocity', 'atom_id'],
                                 ['velocity', 'atom_id', 'spos', 'atype'])):
        for oi, ops in enumerate((['reverse'], ['shuffle'], [])):
            dd = ids if not ops or (li + oi) % 2 else desc([('velocity', 0, 3)])
            out.append(case('dump', {'kind': 'dump', 'd': dd, 'units': 'metal', 'ff': 'f13', 'prop_names': list(layout)},
                            ops=ops, tseed=3 + li, use_pi=(li + oi) % 2 == 0, must_write=True))
    for li, layout in enumerate(([1, 0, 2, 3], [1, 2, 0, 3], [1, 2, 3, 0], [3, 2, 1, 0])):
        cols = [('a_id', 'none', ['id']), ('atype', 'none', ['type']), ('pos', ['length', 'scaled', 'none'][li % 3], ['x', 'y', 'z']),
                ('velocity', 'velocity', ['vx', 'vy', 'vz'])]
        for oi, ops in enumerate((['reverse'], ['shuffle'])):
            out.append(case('table', {'kind': 'table', 'd': desc([('velocity', 0, 3)]), 'units': 'metal', 'ff': 'f13',
                                      'cols': [cols[k] for k in layout], 'header': (li + oi) % 2 == 0}, ops=ops, tseed=5 + li,
                            must_write=True))
    # files that look sorted at both ends: two interior atom lines exchanged (5 and 8 atoms)
    for k, kind in enumerate(('dump', 'table', 'data', 'dump', 'table')):
        cs_ = sized_case(random.Random(11 + k), kind, 5 if k % 2 else 8)
        cs_['ops'], cs_['mode'] = ['swapmid'], 'str'
        out.append(cs_)
    for cs, sc in (('direct', 2.0), ('cartesian', 2.0), ('Cartesian', 0.5), ('direct', -2.5), ('cartesian', -2.5),
                   ('cartesian', -1.0), ('direct', 2.0 ** -200), ('k', -(2.0 ** 90))):
        out.append(case('poscar', {'kind': 'poscar', 'd': desc(), 'coordstyle': cs, 'scale': sc, 'symbols': ['Al', 'Cu'],
                                   'header': 'x', 'ff': 'e13'}))

    # one system per format, the same unit strings every time, under a sequence of working units that comes back to
    # earlier ones: load -> reset_units -> dump -> load -> reset_units -> ...
    def four(un, tilt=0.5):
        vects = [[4.0, 0.0, 0.0], [tilt, 8.0, 0.0], [-tilt, 2 * tilt, 2.0]]
        d4 = lambda props: desc(props, vects=vects, pbc=(True, False, True))       # noqa: E731
        return [('data', {'kind': 'data', 'd': d4(c07.needed_props('charge', True)), 'style': 'charge', 'units': un,
                          'ff': pick_format(random.Random(1), un), 'natypes': None, 'fname': None}),
                ('dump', {'kind': 'dump', 'd': d4([('velocity', 0, 3), ('charge', 0, 1)]), 'units': un,
                          'ff': pick_format(random.Random(2), un), 'prop_names': None}),
                ('table', {'kind': 'table', 'd': d4([('velocity', 0, 3), ('charge', 0, 1)]), 'units': un, 'ff': 'e13',
                           'cols': [('atype', 'none', ['type']), ('pos', 'length', ['x', 'y', 'z']),
                                    ('velocity', 'velocity', ['vx', 'vy', 'vz']), ('charge', 'charge', ['q'])], 'header': False}),
                ('poscar', {'kind': 'poscar', 'd': d4([]), 'coordstyle': 'cartesian' if un == 'si' else 'direct', 'scale': 3.52,
                            'symbols': ['Al', 'Cu'], 'header': 'x', 'ff': 'e13'})]
    seq = [None, WU_POOL[1], None, WU_POOL[0], {'seed': 7}, WU_POOL[2], WU_POOL[3], None, {'seed': 8}, WU_POOL[5], None]
    for k, wu in enumerate(seq):
        for un in ('metal', 'si', 'real'):
            for kind, w in four(un):
                if kind == 'poscar' and un == 'real':
                    continue
                out.append(case(kind, w, wu=wu, use_pi=(k % 2 == 0), must_write=True))
    # every way of naming the target of the dump, new and existing, for every format
    k = 0
    for sink in SINKS:
        for prior in (None, 'bigger', 'text'):
            for kind, w in four('metal', tilt=0.25):
                k += 1
                out.append(case(kind, w, sink=sink, prior=prior, must_write=True, wu=(None if k % 5 else WU_POOL[1]),
                                mode=MODES[k % len(MODES)], alias=(k % 3 == 0), argform=(k % 4 == 0)))
    return out


def replay(ctx, payload):
    r = payload.get('replay', {})
    inputs = Inputs()
    try:
        if r.get('op') == 'case':
            c0 = case_from_replay(r['case'])
            before = len(ctx.violations)
            oracle_case(ctx, c0, ctx.violate, inputs)
            c = under_wu(c0)
            wr = write_case(c['w'])
            print('replay', c['kind'], {k: v for k, v in c0.items() if k not in ('w', '_as_run')})
            if wr[0] == 'ok':
                text = transformed_text(c, wr[1])
                print(text)
                opts = load_opts(c, wr[2])
                real = real_load(c['kind'], text, opts, box=wr[3].box if c['kind'] == 'table' else None)
                print(real[1])
                if ctx.driver is not None:
                    print('model:', ctx.driver.ask(model_line(c['kind'], text, opts))[:600])
            print('violations on this input:', [(f.key, f.what) for f in ctx.violations[before:]])
        elif r.get('op') == 'route':
            script = {'case': case_from_replay(r['script']['case']), 'ops': r['script']['ops']}
            print('route script', script['ops'])
            run_route_script(ctx, script, inputs, lambda k, wh, rp: (print('DISAGREE', wh), ctx.disagree(k, wh, rp)))
        elif r.get('op') == 'malformed':
            real = real_load('data', r['text'], r['opts'])
            print(r['text'])
            print('atomman:', real[:2] if real[0] != 'ok' else 'loads a system')
            if ctx.driver is not None:
                print('model:', ctx.driver.ask(model_line('data', r['text'], r['opts']))[:200])
            if real[0] != 'err:format':
                ctx.violate('data:missing-section', f"data file with {r['what']} is not rejected with FileFormatError", r)
        else:
            search(ctx, True)
    finally:
        inputs.done()
        c07.ensure_wu(None)
