"""C04 — supercells and re-oriented cells contain the same infinite crystal.

Model: lean/Atomman/C04.lean (supersize with the implementation's replica ordering; rotate up to
normalize: bounding supercell, new vectors at the same origin, half-open filter).
Tie: correspondence of `System.supersize` (atom for atom, in order) and `System.rotate`
(multiset of (type, extras, relative position mod 1 in the new cell)) against the Lean driver.
Search: the property's own clauses evaluated on the real code with exact lattice arithmetic.
"""
from __future__ import annotations

import itertools
import math
import random
from fractions import Fraction

from .. import common as cm

PROP = 'C04'
THEOREMS = [
    'C04.supersize_length', 'C04.supersize_get', 'C04.decode_encode', 'C04.encode_decode',
    'C04.replicaPos_eq', 'C04.superBox_volume', 'C04.supersize_copies_payload',
    'C04.replica_injective', 'C04.newVects_det', 'C04.rotate_members', 'C04.rotate_inside',
    'C04.rotate_distinct', 'C04.rotate_refuses_singular',
    'C04.rotate_equal_representation', 'C04.rep_exists', 'C04.rep_unique', 'C04.reduce_rep',
    # the count: sublattice index |det U| (Mathlib Smith normal form), coverage by the bounding supercell,
    # per-atom image lists, total = natoms*|det U| (the code's expected-count test), at K = Q with Rat.floor
    'C04.rotate_lattice_index', 'C04.rep_in_bounds', 'C04.keptPred_imageOf', 'C04.rotate_count',
    'C04.rotate_total', 'C04.rotate_check_passes', 'C04.rotate_total_rat',
    'C04.rotate_identity_shortcut', 'C04.rotate_ok',
]
PARTIAL = {
    'normalize_after_rotate': 'the final normalize step (rebuild the box LAMMPS-compatible, flip a left-handed cell, '
                              'wrap, returned transform) is property C05; here it is outside the Lean model: the '
                              'correspondence compares relative coordinates in the new cell (s_c -> 1-s_c for a '
                              'left-handed U, C05 flip_same_points) and the oracle checks on the real result that the '
                              'returned transform is a proper rotation taking the requested lattice vectors U.vects onto '
                              'the result cell and every atom onto an original atom',
    'cell_conversions': 'conventional<->primitive conversions are rotate() by the centering tables (mutually inverse by '
                        'C16 centering_inverse) followed, for c2p, by cutting 1/8 (1/27) of the cell out with a float '
                        'smallshift; that cut is not modelled in Lean; the oracle checks on the real code, for all 8 '
                        'settings, that the primitive cell is the same crystal and that p2c(c2p(cell)) returns the '
                        'original cell vectors, identity composite transform and the original atoms in place',
}
RULE = ('random cells of every crystal family + triclinic (dyadic-grid vectors, non-zero origins), 1-4 atoms with '
        'relative coordinates on a 1/8 grid incl. faces, 1-3 types, scalar + vector + 3x3 tensor + unique integer '
        'per-atom properties; multiplier tuples positive/negative/two-sided; integer 3x3 U with entries in [-2,2] '
        '(hexagonal 3x4 too), det != 0 of either sign; a batch with one atom moved outside the box (refusals must '
        'coincide); distinct = distinct canonical request line; non-trivial = more than one replica / U != identity')
ASSUMPTIONS = ['numpy.linalg.inv and float arithmetic of the implementation are within rtol 1e-9 of the exact value on '
               'the generated (well-conditioned, dyadic) cells',
               'the float tolerance ladder of rotate (isclose to 0/1) is the identity in exact arithmetic',
               'rotate_count / rotate_total / rotate_check_passes assume every atom inside the box (0 <= s < 1, what '
               'System.wrap establishes) and a non-degenerate box; for atoms outside the box both the code and the '
               'model (rotateChecked) may refuse with the expected-count test ("Filtering failed") - compared in the '
               'correspondence',
               'System.normalize (applied by rotate last) is covered by property C05; results are compared modulo '
               'the returned transform']
TRUSTED = ['numpy in the correspondence run',
           'Mathlib (Submodule.natAbs_det_equiv: Smith normal form over Z) - kernel-checked, standard axioms only']
MANIFEST = {
    'text': 'Lean model of supersize (exact replica ordering) and of rotate up to normalize (bounding supercell from the '
            '8 corners -/+ 1, whole-lattice translation to the Cartesian origin, half-open filter, the expected-count '
            'test). Theorems for every linearly ordered (floor) field: count, k-th atom = original + integer lattice '
            'shift with payload copied, index bijection, volume x M, distinct replicas never coincide; rotated cell '
            'volume = det U x volume; every kept atom is an original plus a lattice vector inside the half-open cell; no '
            'two kept atoms differ by a new-lattice vector; the half-open cell of Z^3.U holds exactly |det U| points of '
            'every coset (sublattice index via Mathlib Smith normal form) and the bounding supercell contains all of '
            'them, hence each original atom inside the box has exactly |det U| distinct images kept, none missed, the '
            'kept list is a permutation of the per-atom image lists, total = natoms x |det U| and the code\'s '
            'expected-count test never fails. Tied to the code by an exact/toleranced correspondence run on supersize '
            'and rotate (incl. refusals) and an exact lattice-arithmetic oracle on the real results (requested vectors, '
            'proper transform, payload incl. tensors, cell conversions undoing one another).',
    'note': 'Trusted: Lean kernel + standard axioms; the correspondence harness; float rounding bounded by rtol 1e-9. '
            'Outside the Lean model: normalize (C05) and the primitive-cell cut of conventional_to_primitive, both '
            'checked on the implementation by the oracle.',
    'technique': 'Lean 4 theorems over a hand-written model + differential correspondence + exact lattice oracle',
}


# ----------------------------------------------------------------------------------------------
# generators
# ----------------------------------------------------------------------------------------------
def _np():
    import numpy as np
    return np


def gen_box(rng, am):
    """(Box, family) with exactly representable vectors for most families."""
    np = _np()
    fam = rng.choice(['cubic', 'tetragonal', 'orthorhombic', 'hexagonal', 'monoclinic', 'triclinic', 'rhombohedral',
                      'general'])
    a = rng.choice([2.0, 2.5, 3.0, 3.25, 4.0])
    b = rng.choice([2.75, 3.5, 4.5, 5.0])
    c = rng.choice([3.75, 5.25, 6.0, 6.5])
    org = [cm.dyadic(rng, -3, 3, 2) for _ in range(3)] if rng.random() < 0.6 else [0.0, 0.0, 0.0]
    if rng.random() < 0.15:
        org = [rng.choice([-40.0, 25.0, 12.5]) for _ in range(3)]
    if fam == 'cubic':
        box = am.Box(a=a, b=a, c=a, origin=org)
    elif fam == 'tetragonal':
        box = am.Box(a=a, b=a, c=c, origin=org)
    elif fam == 'orthorhombic':
        box = am.Box(a=a, b=b, c=c, origin=org)
    elif fam == 'hexagonal':
        box = am.Box(a=a, b=a, c=c, gamma=120, origin=org)
    elif fam == 'monoclinic':
        box = am.Box(a=a, b=b, c=c, beta=rng.choice([95.0, 104.5, 110.0]), origin=org)
    elif fam == 'rhombohedral':
        al = rng.choice([60.0, 75.0, 100.0])
        box = am.Box(a=a, b=a, c=a, alpha=al, beta=al, gamma=al, origin=org)
    elif fam == 'triclinic':
        box = am.Box(lx=a, ly=b, lz=c, xy=cm.dyadic(rng, -1, 1, 2), xz=cm.dyadic(rng, -1, 1, 2),
                     yz=cm.dyadic(rng, -1, 1, 2), origin=org)
    else:  # general (not LAMMPS-normal) right-handed dyadic vectors
        while True:
            v = [[cm.dyadic(rng, -4, 4, 1) for _ in range(3)] for _ in range(3)]
            d = np.linalg.det(np.array(v))
            if d > 4.0:
                break
        box = am.Box(vects=v, origin=org)
    return box, fam


def gen_system(rng, am, fam_box=None):
    np = _np()
    box, fam = fam_box or gen_box(rng, am)
    n = rng.randint(1, 4)
    seen, spos = set(), []
    while len(spos) < n:
        s = tuple(rng.randint(0, 7) / 8 for _ in range(3))
        if s not in seen:
            seen.add(s)
            spos.append(s)
    atype = [rng.randint(1, 3) for _ in range(n)]
    # make types contiguous from 1 so natypes is sane
    m = {t: i + 1 for i, t in enumerate(sorted(set(atype)))}
    atype = [m[t] for t in atype]
    q = [cm.dyadic(rng, -2, 2, 2) for _ in range(n)]
    v = [[cm.dyadic(rng, -2, 2, 2) for _ in range(3)] for _ in range(n)]
    # a rank-2 per-atom property (all nine entries different, not symmetric) and an integer one that is unique per
    # atom: a replica that carries another atom's (or a transposed / re-tiled) value cannot go unnoticed
    stress = [[[cm.dyadic(rng, -4, 4, 3) for _ in range(3)] for _ in range(3)] for _ in range(n)]
    tag = rng.sample(range(1, 50), n)
    atoms = am.Atoms(atype=atype, pos=np.array(spos, dtype=float), q=np.array(q), v=np.array(v),
                     stress=np.array(stress), tag=np.array(tag, dtype=int))
    sysm = am.System(atoms=atoms, box=box, scale=True)
    return sysm, fam, spos


NEXTRA = 14


def payload(sysm, k):
    """every per-atom value except type and position, as exact floats: q, v (3), stress (9, row-major), tag."""
    return ([float(sysm.atoms.q[k])] + [float(x) for x in sysm.atoms.v[k]]
            + [float(x) for x in sysm.atoms.stress[k].ravel()] + [float(sysm.atoms.tag[k])])


def sys_line(sysm):
    """exact wire form: box (12) then atoms with NEXTRA extras each."""
    np = _np()
    pos = sysm.atoms.pos
    parts = [cm.frs(sysm.box.vects), cm.frs(sysm.box.origin)]
    atoms = []
    for i in range(sysm.natoms):
        atoms.append(f"{int(sysm.atoms.atype[i])} {cm.frs(pos[i])} {cm.frs(payload(sysm, i))}")
    return ' '.join(parts), ' '.join(atoms)


def parse_result(out, e=NEXTRA):
    toks = out.split()
    box = [Fraction(t) for t in toks[:12]]
    n = int(toks[12])
    atoms = []
    k = 13
    for _ in range(n):
        t = int(toks[k])
        vals = [Fraction(x) for x in toks[k + 1:k + 4 + e]]
        atoms.append((t, vals[:3], vals[3:]))
        k += 4 + e
    return box, atoms


def gen_sizes(rng):
    out = []
    for _ in range(3):
        r = rng.random()
        if r < 0.4:
            out.append(rng.randint(1, 3))
        elif r < 0.6:
            out.append(-rng.randint(1, 3))
        else:
            lo, hi = -rng.randint(0, 2), rng.randint(0, 2)
            if lo == 0 and hi == 0:
                hi = 1
            out.append((lo, hi))
    return out


def norm_size(s):
    if isinstance(s, tuple):
        return s
    return (0, s) if s > 0 else (s, 0)


def _det3(U):
    return (U[0][0] * (U[1][1] * U[2][2] - U[1][2] * U[2][1]) - U[0][1] * (U[1][0] * U[2][2] - U[1][2] * U[2][0])
            + U[0][2] * (U[1][0] * U[2][1] - U[1][1] * U[2][0]))


def _matmul3(A, B):
    return [[sum(A[i][k] * B[k][j] for k in range(3)) for j in range(3)] for i in range(3)]


def gen_U(rng, maxdet=6, lim=2):
    """integer 3x3 with 0 < |det| <= maxdet: mostly random entries in [-lim, lim], and a quarter from the special
    families a random draw almost never hits (signed permutations, diagonal, triangular/Hermite form, unimodular
    shear products, the integer centering matrices), of either handedness."""
    while True:
        r = rng.random()
        if r < 0.75:
            U = [[rng.randint(-lim, lim) for _ in range(3)] for _ in range(3)]
        elif r < 0.82:      # signed permutation (|det| = 1, not the identity shortcut)
            perm = rng.sample(range(3), 3)
            U = [[(rng.choice([-1, 1]) if j == perm[i] else 0) for j in range(3)] for i in range(3)]
        elif r < 0.87:      # diagonal
            U = [[(rng.choice([-2, -1, 1, 2, 3]) if i == j else 0) for j in range(3)] for i in range(3)]
        elif r < 0.92:      # lower triangular (Hermite normal form like)
            U = [[(rng.randint(1, 3) if i == j else (rng.randint(-2, 2) if j < i else 0)) for j in range(3)]
                 for i in range(3)]
        elif r < 0.97:      # unimodular: product of elementary shears
            U = [[1, 0, 0], [0, 1, 0], [0, 0, 1]]
            for _ in range(rng.randint(1, 3)):
                i, j = rng.sample(range(3), 2)
                E = [[1 if a == b else 0 for b in range(3)] for a in range(3)]
                E[i][j] = rng.choice([-2, -1, 1, 2])
                U = _matmul3(E, U)
        else:               # integer conventional->primitive centering matrices (miller.py)
            U = rng.choice([[[1, 0, 0], [0, 1, -1], [0, 1, 1]], [[1, -1, 0], [1, 1, 0], [0, 0, 1]],
                            [[0, -1, -1], [1, 1, 0], [1, 0, 1]], [[1, -1, 1], [1, 1, -1], [-1, 1, 1]],
                            [[1, -1, 0], [0, 1, -1], [1, 1, 1]], [[-1, 1, 0], [0, -1, 1], [1, 1, 1]]])
            U = [list(row) for row in U]
        d = _det3(U)
        if d != 0 and abs(d) <= maxdet and max(abs(x) for row in U for x in row) <= 6:
            return U, d


# always exercised (correspondence and oracle), on cells whose origin is not a lattice vector: the identity shortcut,
# proper and improper axis permutations, inversion, a diagonal and a centering matrix
FIXED_U = [[[1, 0, 0], [0, 1, 0], [0, 0, 1]], [[0, 1, 0], [0, 0, 1], [1, 0, 0]], [[0, 1, 0], [1, 0, 0], [0, 0, 1]],
           [[-1, 0, 0], [0, -1, 0], [0, 0, -1]], [[2, 0, 0], [0, 1, 0], [0, 0, 1]], [[1, -1, 0], [1, 1, 0], [0, 0, 1]]]


def gen_case_U(rng, am, it, maxdet):
    """(system, family, spos, U, det): the first len(FIXED_U) cases of a batch use the fixed matrices."""
    if it < len(FIXED_U):
        while True:
            sysm, fam, spos = gen_system(rng, am)
            o = sysm.box.origin @ _np().linalg.inv(sysm.box.vects)
            if _np().abs(o - _np().round(o)).max() > 1e-3:
                break
        U = [list(r) for r in FIXED_U[it]]
        return sysm, fam, spos, U, _det3(U)
    sysm, fam, spos = gen_system(rng, am)
    U, d = gen_U(rng, maxdet=maxdet)
    return sysm, fam, spos, U, d


def frac_mod1(x: Fraction) -> Fraction:
    return x - math.floor(x)


# ----------------------------------------------------------------------------------------------
# correspondence
# ----------------------------------------------------------------------------------------------
def correspond(ctx):
    np = _np()
    import atomman as am
    rng = ctx.rng
    # --- supersize, atom for atom in order ---
    for it in range(ctx.n(120, 1500)):
        sysm, fam, _ = gen_system(rng, am)
        sizes = gen_sizes(rng)
        new = sysm.supersize(*sizes)
        bl, al = sys_line(sysm)
        ns = [norm_size(s) for s in sizes]
        line = f"supersize {NEXTRA} {sysm.natoms} {bl} " + ' '.join(f'{lo} {hi}' for lo, hi in ns) + ' ' + al
        out = ctx.driver.ask(line)
        mult = math.prod(h - l for l, h in ns)
        ctx.stats.case('supersize', line, nontrivial=mult > 1,
                       sample={'op': 'supersize', 'family': fam, 'sizes': [list(s) for s in ns], 'natoms': sysm.natoms})
        if out.startswith('err:'):
            ctx.disagree('supersize:model-refuses', f'model refused {sizes}: {out}', {'line': line})
            continue
        box, atoms = parse_result(out)
        impl_box = list(new.box.vects.ravel()) + list(new.box.origin)
        ok = cm.allclose(impl_box, box, rtol=1e-12, atol=1e-12) and len(atoms) == new.natoms
        if ok:
            for k, (t, p, ex) in enumerate(atoms):
                impl_ex = payload(new, k)
                if t != int(new.atoms.atype[k]) or not cm.allclose(new.atoms.pos[k], p, rtol=1e-9, atol=1e-9) \
                        or not cm.allclose(impl_ex, ex, rtol=0, atol=0):
                    ok = False
                    break
        if not ok:
            ctx.disagree('supersize', f'supersize{tuple(sizes)} differs from the model (family {fam})',
                         {'op': 'supersize', 'line': line, 'sizes': [list(s) for s in ns],
                          'impl_natoms': int(new.natoms), 'model_natoms': len(atoms)})
    # int forms of the multipliers
    for n in range(-3, 4):
        out = ctx.driver.ask(f'sizeint {n}')
        ctx.stats.case('sizeint', n)
        sysm, _, _ = gen_system(random.Random(5), am)
        try:
            new = sysm.supersize(n, 1, 1)
            lo = round(float((new.box.origin - sysm.box.origin) @ np.linalg.inv(sysm.box.vects)[:, 0]))
            impl = f'{lo} {lo + round(new.natoms / sysm.natoms)}'
        except (TypeError, ValueError):
            impl = 'err:value'
        if impl != out:
            ctx.disagree('supersize:int-rule', f'int multiplier {n}: implementation {impl}, model {out}', {'n': n})
    # --- rotate: multiset of (type, extras, rel pos mod 1) in the new cell ---
    for it in range(ctx.n(60, 800)):
        sysm, fam, _, U, d = gen_case_U(rng, am, it, ctx.n(5, 8))
        _corr_rotate(ctx, am, sysm, fam, U, d, 'rotate')
    # --- rotate with an atom outside the box: the bounding supercell may miss images, then the code's own
    #     expected-count test refuses ("Filtering failed"); the model (rotateChecked) must refuse exactly then ---
    for it in range(ctx.n(30, 400)):
        sysm, fam, _ = gen_system(rng, am)
        sp = sysm.atoms_prop('pos', scale=True)
        sp[rng.randrange(sysm.natoms)] += np.array([rng.randint(-3, 3) for _ in range(3)], dtype=float)
        sysm.atoms_prop('pos', value=sp, scale=True)
        U, d = gen_U(rng, maxdet=5)
        _corr_rotate(ctx, am, sysm, fam, U, d, 'rotate-outside')


def _corr_rotate(ctx, am, sysm, fam, U, d, kind):
    bl, al = sys_line(sysm)
    line = f"rotate {NEXTRA} {sysm.natoms} {bl} " + ' '.join(str(x) for r in U for x in r) + ' ' + al
    out = ctx.driver.ask(line)
    ctx.stats.case(kind, line, nontrivial=U != [[1, 0, 0], [0, 1, 0], [0, 0, 1]],
                   sample={'op': kind, 'family': fam, 'U': U, 'det': d, 'natoms': sysm.natoms})
    def on_face(rel):
        return any(min(abs(float(x)), abs(float(x) - 1.0)) < 1e-6 for x in rel)

    try:
        new, T = sysm.rotate(U, return_transform=True)
    except ValueError as e:
        if not out.startswith('err:'):
            mbox, matoms = parse_result(out)
            if kind == 'rotate-outside':
                # an image exactly on a face of the new cell (s = 0 or 1 up to rounding) is assigned to one of two
                # lattice-equivalent positions by the float tolerance ladder and to the other in exact arithmetic; for
                # an atom outside the box only one of the two may lie in the bounding supercell: not comparable
                Vi = inv3([[mbox[3 * i + j] for j in range(3)] for i in range(3)])
                if any(on_face(vecmat(p, Vi)) for _, p, _ in matoms):
                    ctx.extra['rotate_outside_face_exempt'] = ctx.extra.get('rotate_outside_face_exempt', 0) + 1
                    return
            ctx.disagree(kind + ':impl-refuses', f'rotate refused U={U} (det {d}) family {fam}: {e}; the model keeps '
                         f'{len(matoms)} atoms', {'op': 'rotate', 'line': line, 'U': U})
        return
    if out.startswith('err:'):
        if kind == 'rotate-outside' and any(on_face(srow) for srow in new.atoms_prop('pos', scale=True)):
            ctx.extra['rotate_outside_face_exempt'] = ctx.extra.get('rotate_outside_face_exempt', 0) + 1
            return
        ctx.disagree(kind + ':model-refuses', f'model refused U={U}: {out}; rotate returned {new.natoms} atoms',
                     {'line': line})
        return
    mbox, matoms = parse_result(out)
    # model: relative coordinates in the model's new box
    V = [[mbox[3 * i + j] for j in range(3)] for i in range(3)]
    o = mbox[9:12]
    Vi = inv3(V)
    mset = []
    for t, p, ex in matoms:
        s = vecmat([p[j] - o[j] for j in range(3)], Vi)
        if d < 0:
            # left-handed new cell: normalize reverses the third vector (c -> -c, origin += c): s_c -> 1 - s_c
            s = [s[0], s[1], 1 - s[2]]
        mset.append((t, tuple(ex), tuple(s)))
    spos = new.atoms_prop('pos', scale=True)
    iset = [(int(new.atoms.atype[k]), tuple(Fraction(x) for x in payload(new, k)), tuple(spos[k]))
            for k in range(new.natoms)]
    if not match_multisets(iset, mset, tol=1e-7):
        ctx.disagree(kind, f'rotate U={U} (family {fam}): kept atoms differ from the model '
                     f'({new.natoms} vs {len(matoms)})',
                     {'op': 'rotate', 'line': line, 'U': U, 'impl_natoms': int(new.natoms),
                      'model_natoms': len(matoms)})


def inv3(V):
    a, b, c = V
    cr = lambda u, v: [u[1] * v[2] - u[2] * v[1], u[2] * v[0] - u[0] * v[2], u[0] * v[1] - u[1] * v[0]]
    det = sum(a[i] * cr(b, c)[i] for i in range(3))
    c0, c1, c2 = cr(b, c), cr(c, a), cr(a, b)
    return [[c0[0] / det, c1[0] / det, c2[0] / det], [c0[1] / det, c1[1] / det, c2[1] / det],
            [c0[2] / det, c1[2] / det, c2[2] / det]]


def vecmat(s, V):
    return [sum(s[i] * V[i][j] for i in range(3)) for j in range(3)]


def circ(a, b):
    d = abs(float(a) - float(b)) % 1.0
    return min(d, 1.0 - d)


def match_multisets(iset, mset, tol):
    """greedy matching of (type, extras, relpos mod 1)."""
    if len(iset) != len(mset):
        return False
    used = [False] * len(mset)
    for t, ex, s in iset:
        found = False
        for j, (t2, ex2, s2) in enumerate(mset):
            if used[j] or t != t2 or any(abs(float(a) - float(b)) > 1e-12 for a, b in zip(ex, ex2)):
                continue
            if all(circ(s[i], s2[i]) < tol for i in range(3)):
                used[j] = True
                found = True
                break
        if not found:
            return False
    return True


# ----------------------------------------------------------------------------------------------
# search: the clauses of the property on the real code, exact lattice arithmetic
# ----------------------------------------------------------------------------------------------
def _all_payload(sysm, k):
    """every per-atom value other than type and position (whatever properties the system has), flattened."""
    out = []
    for key in sorted(sysm.atoms_prop()):
        if key in ('atype', 'pos'):
            continue
        out.extend(float(x) for x in _np().asarray(sysm.atoms.view[key][k]).ravel())
    return tuple(out)


def _orig_records(sysm, spos):
    return [(int(sysm.atoms.atype[i]), _all_payload(sysm, i), tuple(Fraction(x) for x in spos[i]))
            for i in range(sysm.natoms)]


def _check_same_crystal(ctx, key, what, sysm, spos, new, T, count, replay):
    """every atom of `new` maps through T, modulo the original lattice, onto an original atom with the same
    payload; each original `count` times; no two coincide modulo the new lattice; returns False on violation."""
    np = _np()
    recs = _orig_records(sysm, spos)
    Vinv = np.linalg.inv(sysm.box.vects)
    hits = [0] * len(recs)
    if new.natoms != count * sysm.natoms:
        ctx.violate(key + ':count', f'{what}: {new.natoms} atoms, expected {count} x {sysm.natoms}', replay)
        return False
    vol0, vol1 = sysm.box.volume, new.box.volume
    if abs(vol1 - count * vol0) > 1e-8 * vol1:
        ctx.violate(key + ':volume', f'{what}: volume {vol1}, expected {count} x {vol0}', replay)
        return False
    if sorted(new.atoms_prop()) != sorted(sysm.atoms_prop()):
        ctx.violate(key + ':properties', f'{what}: per-atom properties {sorted(new.atoms_prop())}, original has '
                    f'{sorted(sysm.atoms_prop())}', replay)
        return False
    for k in range(new.natoms):
        # new frame -> old frame (absolute Cartesian): pos_old = T^T pos_new (a pure rotation about the
        # Cartesian origin; supersize has T = 1), then relative to the original cell
        y = T.T @ new.atoms.pos[k]
        s = (y - sysm.box.origin) @ Vinv
        best = None
        pl = _all_payload(new, k)
        for i, (t, opl, sp) in enumerate(recs):
            if t != int(new.atoms.atype[k]) or opl != pl:
                continue
            if all(circ(s[j], sp[j]) < 1e-6 for j in range(3)):
                best = i
                break
        if best is None:
            ctx.violate(key + ':member', f'{what}: result atom {k} (type {int(new.atoms.atype[k])}) maps onto no '
                        f'original atom with the same type/properties modulo the original lattice (rel {s.tolist()})',
                        replay)
            return False
        hits[best] += 1
    if any(h != count for h in hits):
        ctx.violate(key + ':representation', f'{what}: originals represented {hits} times, expected {count} each', replay)
        return False
    sp = new.atoms_prop('pos', scale=True)
    for a in range(new.natoms):
        for b in range(a + 1, new.natoms):
            if all(circ(sp[a][j], sp[b][j]) < 1e-6 for j in range(3)):
                ctx.violate(key + ':coincide', f'{what}: result atoms {a} and {b} coincide modulo the new cell', replay)
                return False
    return True


def _check_new_vectors(ctx, key, what, sysm, U, new, T, replay):
    """the result is expressed along the requested lattice vectors: its cell vectors are the rows of U.vects, turned
    by the returned rotation (third one reversed when the requested set is left-handed; C05: normalize flips c)."""
    np = _np()
    want = (np.array(U, dtype=float) @ sysm.box.vects) @ T.T
    if np.linalg.det(np.array(U, dtype=float)) < 0:
        want[2] = -want[2]
    scale = np.abs(want).max()
    if not np.allclose(new.box.vects, want, rtol=0, atol=1e-8 * scale):
        ctx.violate(key, f'{what}: cell vectors {new.box.vects.tolist()} are not the requested lattice vectors turned '
                    f'by the returned transform {want.tolist()}', replay)
        return False
    return True


def search(ctx, broken):
    np = _np()
    import atomman as am
    rng = random.Random(ctx.seed * 7919 + 17)
    scale = 3 if broken else 1
    I3 = np.eye(3)
    # supersize
    for it in range(ctx.n(60, 600) * scale):
        sysm, fam, spos = gen_system(rng, am)
        before = (sysm.atoms.pos.copy(), sysm.box.vects.copy(), sysm.box.origin.copy())
        sizes = gen_sizes(rng)
        ns = [norm_size(s) for s in sizes]
        M = math.prod(h - l for l, h in ns)
        replay = {'op': 'supersize', 'family': fam, 'vects': sysm.box.vects.tolist(), 'origin': sysm.box.origin.tolist(),
                  'spos': [[float(x) for x in s] for s in spos], 'atype': sysm.atoms.atype.tolist(), 'sizes': [list(s) for s in ns]}
        new = sysm.supersize(*sizes)
        ctx.stats.case('oracle:supersize', (fam, tuple(ns), tuple(spos)))
        _check_same_crystal(ctx, 'supersize', f'supersize{tuple(sizes)} ({fam})', sysm, spos, new, I3, M, replay)
        V0, o0 = before[1], before[2]
        wantv = np.array([V0[i] * (ns[i][1] - ns[i][0]) for i in range(3)])
        wanto = o0 + sum(V0[i] * ns[i][0] for i in range(3))
        if not (np.allclose(new.box.vects, wantv, rtol=0, atol=1e-9) and np.allclose(new.box.origin, wanto, rtol=0, atol=1e-9)):
            ctx.violate('supersize:box', f'supersize{tuple(sizes)} ({fam}): box {new.box.vects.tolist()} at '
                        f'{new.box.origin.tolist()}, expected the multiplied vectors {wantv.tolist()} at {wanto.tolist()}',
                        replay)
        if not (np.array_equal(before[0], sysm.atoms.pos) and np.array_equal(before[1], sysm.box.vects)
                and np.array_equal(before[2], sysm.box.origin)):
            ctx.violate('supersize:input-mutated', 'supersize changed its input system', replay)
    # refusals of supersize
    sysm, fam, spos = gen_system(rng, am)
    for bad in [(0, 1, 1), ((1, 2), 1, 1), ((-1, -1), 1, 1), (1.5, 1, 1), ((0, 0), 1, 1)]:
        ctx.stats.case('oracle:supersize-refusal', bad)
        try:
            sysm.supersize(*bad)
            ctx.violate('supersize:refusal', f'supersize{bad} was accepted', {'op': 'supersize-refusal', 'sizes': str(bad)})
        except (TypeError, ValueError):
            pass
    # rotate
    for it in range(ctx.n(50, 600) * scale):
        sysm, fam, spos, U, d = gen_case_U(rng, am, it, ctx.n(5, 8))
        replay = {'op': 'rotate', 'family': fam, 'vects': sysm.box.vects.tolist(), 'origin': sysm.box.origin.tolist(),
                  'spos': [[float(x) for x in s] for s in spos], 'atype': sysm.atoms.atype.tolist(), 'U': U}
        ctx.stats.case('oracle:rotate', (fam, tuple(map(tuple, U)), tuple(spos)))
        try:
            new, T = sysm.rotate(U, return_transform=True)
        except Exception as e:  # noqa
            ctx.violate('rotate:raises', f'rotate raised {type(e).__name__}: {e} for U={U} det={d} ({fam}, origin '
                        f'{sysm.box.origin.tolist()})', replay)
            continue
        if not _check_same_crystal(ctx, 'rotate', f'rotate U={U} det={d} ({fam})', sysm, spos, new, T, abs(d), replay):
            continue
        _check_new_vectors(ctx, 'rotate:vectors', f'rotate U={U} det={d} ({fam})', sysm, U, new, T, replay)
        if not new.box.is_lammps_norm():
            ctx.violate('rotate:lammps-normal', f'rotate U={U}: result box is not LAMMPS-compatible', replay)
        sp = new.atoms_prop('pos', scale=True)
        if sp.min() < -1e-9 or sp.max() > 1 + 1e-9:
            ctx.violate('rotate:inside', f'rotate U={U}: atoms outside the new cell (rel range {sp.min()}..{sp.max()})', replay)
        if not (np.allclose(T @ T.T, I3, atol=1e-9) and abs(np.linalg.det(T) - 1) < 1e-9):
            ctx.violate('rotate:transform', f'rotate U={U}: returned transform is not a proper rotation', replay)
    # hexagonal 3x4 input
    for it in range(ctx.n(6, 40)):
        box = am.Box(a=3.0, b=3.0, c=5.0, gamma=120)
        sysm, fam, spos = gen_system(rng, am, (box, 'hexagonal'))
        U, d = gen_U(rng, maxdet=4)
        # a 3-index vector [u v w] has 4-index form [(2u-v)/3, (2v-u)/3, -(u+v)/3, w]; use 3x multiples to stay integer
        U3 = [[3 * x for x in r] for r in U]
        U4 = [[(2 * r[0] - r[1]) // 3 * 1, (2 * r[1] - r[0]) // 3, -(r[0] + r[1]) // 3, r[2]] for r in U3]
        replay = {'op': 'rotate-hex', 'U4': U4, 'spos': [[float(x) for x in s] for s in spos]}
        ctx.stats.case('oracle:rotate-hex', (tuple(map(tuple, U4)), tuple(spos)))
        if abs(27 * d) > 60:
            continue
        try:
            new, T = sysm.rotate(np.array(U4), return_transform=True)
        except Exception as e:  # noqa
            ctx.violate('rotate:hex-raises', f'rotate raised {type(e).__name__}: {e} for 3x4 indices {U4}', replay)
            continue
        if _check_same_crystal(ctx, 'rotate-hex', f'rotate 3x4 {U4}', sysm, spos, new, T, abs(27 * d), replay):
            _check_new_vectors(ctx, 'rotate-hex:vectors', f'rotate 3x4 {U4} (= 3x3 {U3})', sysm, U3, new, T, replay)
    # refusals of rotate
    sysm, fam, spos = gen_system(rng, am)
    for bad, why in [([[1, 0, 0], [2, 0, 0], [0, 0, 1]], 'parallel'), ([[1, 1, 0], [1, -1, 0], [2, 0, 0]], 'planar'),
                     ([[1.5, 0, 0], [0, 1, 0], [0, 0, 1]], 'non-integer')]:
        ctx.stats.case('oracle:rotate-refusal', why)
        try:
            sysm.rotate(bad)
            ctx.violate('rotate:refusal', f'rotate accepted {why} vectors {bad}', {'op': 'rotate-refusal', 'U': bad})
        except ValueError:
            pass
    _search_conversions(ctx, rng, am)


CONV = {
    # setting: (family box kwargs, basis relpos)
    'p': (dict(a=3.0, b=3.0, c=3.0), [[0, 0, 0]]),
    'i': (dict(a=3.0, b=3.0, c=3.0), [[0, 0, 0], [.5, .5, .5]]),
    'f': (dict(a=4.0, b=4.0, c=4.0), [[0, 0, 0], [.5, .5, 0], [.5, 0, .5], [0, .5, .5]]),
    'a': (dict(a=3.0, b=4.0, c=5.0), [[0, 0, 0], [0, .5, .5]]),
    'b': (dict(a=3.0, b=4.0, c=5.0), [[0, 0, 0], [.5, 0, .5]]),
    'c': (dict(a=3.0, b=4.0, c=5.0), [[0, 0, 0], [.5, .5, 0]]),
    't1': (dict(a=3.0, b=3.0, c=7.0, gamma=120), [[0, 0, 0], [2 / 3, 1 / 3, 1 / 3], [1 / 3, 2 / 3, 2 / 3]]),
    't2': (dict(a=3.0, b=3.0, c=7.0, gamma=120), [[0, 0, 0], [1 / 3, 2 / 3, 1 / 3], [2 / 3, 1 / 3, 2 / 3]]),
}
NLAT = {'p': 1, 'i': 2, 'f': 4, 'a': 2, 'b': 2, 'c': 2, 't1': 3, 't2': 3}


def _search_conversions(ctx, rng, am):
    """conventional -> primitive -> conventional: re-expressions that undo one another."""
    np = _np()
    for setting, (bk, basis) in CONV.items():
        for variant in range(ctx.n(1, 4)):
            box = am.Box(**bk)
            # motif: one or two atoms per lattice point (second of another type, generic offset)
            motif = [(1, np.zeros(3))]
            if variant % 2 == 1:
                motif.append((2, np.array([0.25, 0.125, 0.0625]) if setting[0] != 't' else np.array([0.0, 0.0, 0.25])))
            spos, atype = [], []
            for bpt in basis:
                for t, off in motif:
                    spos.append((np.array(bpt) + off) % 1.0)
                    atype.append(t)
            n = len(spos)
            atoms = am.Atoms(atype=atype, pos=np.array(spos), q=np.arange(n) % 1 * 0.0 + np.array(atype) * 0.5,
                             v=np.zeros((n, 3)))
            conv = am.System(atoms=atoms, box=box, scale=True)
            replay = {'op': 'conversion', 'setting': setting, 'variant': variant}
            ctx.stats.case('oracle:conversion', (setting, variant),
                           sample={'op': 'c2p->p2c', 'setting': setting, 'natoms': n})
            try:
                prim, T1 = conv.dump('conventional_to_primitive', setting=setting, return_transform=True)
                conv2, T2 = prim.dump('primitive_to_conventional', setting=setting, return_transform=True)
            except Exception as e:  # noqa
                ctx.violate('conversion:raises', f'cell conversion ({setting}) raised {type(e).__name__}: {e}', replay)
                continue
            if prim.natoms * NLAT[setting] != conv.natoms or abs(prim.box.volume * NLAT[setting] - conv.box.volume) > 1e-8:
                ctx.violate('conversion:primitive-count', f'primitive cell of setting {setting}: {prim.natoms} atoms, volume '
                            f'{prim.box.volume}; conventional {conv.natoms}, {conv.box.volume}', replay)
                continue
            # prim and conv2 describe conv's crystal through the transforms
            sp_exact = [tuple(Fraction(float(x)).limit_denominator(48) for x in s) for s in spos]
            ok1 = _check_same_crystal_partial(ctx, 'conversion:c2p', f'conventional_to_primitive({setting})', conv, sp_exact, prim, T1, replay)
            if ok1:
                Ttot = T2 @ T1
                _check_same_crystal(ctx, 'conversion:roundtrip', f'c2p then p2c ({setting})', conv, sp_exact, conv2, Ttot, 1, replay)
                # "undo one another": the composite is the identity re-expression - same cell vectors, composite
                # transform = identity, and the atoms are the original ones modulo the lattice *without* any rotation
                if not np.allclose(conv2.box.vects, conv.box.vects, rtol=0, atol=1e-8 * conv.box.a):
                    ctx.violate('conversion:cell', f'c2p then p2c ({setting}) changed the cell {conv.box.vects.tolist()} '
                                f'-> {conv2.box.vects.tolist()}', replay)
                elif not np.allclose(Ttot, np.eye(3), atol=1e-8):
                    ctx.violate('conversion:transform', f'c2p then p2c ({setting}): composite transform {Ttot.tolist()} '
                                f'is not the identity', replay)
                else:
                    _check_same_crystal(ctx, 'conversion:undo', f'c2p then p2c ({setting}) compared in place', conv,
                                        sp_exact, conv2, np.eye(3), 1, replay)


def _check_same_crystal_partial(ctx, key, what, sysm, spos, new, T, replay):
    """sub-cell version: every atom of `new` is an original atom modulo the original lattice, no two coincide."""
    np = _np()
    recs = _orig_records(sysm, spos)
    Vinv = np.linalg.inv(sysm.box.vects)
    for k in range(new.natoms):
        y = T.T @ new.atoms.pos[k]
        s = (y - sysm.box.origin) @ Vinv
        # (the primitive cell is only re-centred on an atom that already sits at the origin within 1e-8: no offset)
        s2 = [s[j] for j in range(3)]
        pl = _all_payload(new, k)
        if not any(t == int(new.atoms.atype[k]) and opl == pl and all(circ(s2[j], sp[j]) < 1e-6 for j in range(3))
                   for (t, opl, sp) in recs):
            ctx.violate(key, f'{what}: atom {k} is not an original atom modulo the lattice (rel {s2})', replay)
            return False
    sp = new.atoms_prop('pos', scale=True)
    for a in range(new.natoms):
        for b in range(a + 1, new.natoms):
            if all(circ(sp[a][j], sp[b][j]) < 1e-6 for j in range(3)):
                ctx.violate(key, f'{what}: atoms {a} and {b} coincide', replay)
                return False
    return True


def replay(ctx, payload):
    np = _np()
    import atomman as am
    r = payload.get('replay', {})
    if r.get('op') in ('supersize', 'rotate') and 'vects' in r:
        box = am.Box(vects=r['vects'], origin=r['origin'])
        n = len(r['spos'])
        atoms = am.Atoms(atype=r['atype'], pos=np.array(r['spos']), q=np.zeros(n), v=np.zeros((n, 3)))
        sysm = am.System(atoms=atoms, box=box, scale=True)
        spos = [tuple(Fraction(x) for x in s) for s in r['spos']]
        if r['op'] == 'supersize':
            sizes = [tuple(s) for s in r['sizes']]
            new = sysm.supersize(*sizes)
            M = math.prod(h - l for l, h in sizes)
            _check_same_crystal(ctx, 'supersize', 'replay', sysm, spos, new, np.eye(3), M, r)
        else:
            d = round(float(np.linalg.det(np.array(r['U'], dtype=float))))
            try:
                new, T = sysm.rotate(r['U'], return_transform=True)
                _check_same_crystal(ctx, 'rotate', 'replay', sysm, spos, new, T, abs(d), r)
            except Exception as e:  # noqa
                ctx.violate('rotate:raises', f'replay: rotate raised {e}', r)
    else:
        search(ctx, True)
